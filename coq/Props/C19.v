(** C19 — saved models and buffers reload to identical state and behaviour (partial:
    the theorems are about the model; that pickle / Orbax reproduce every stored
    attribute is observed at run time by the crash-point enumeration).
    Only property theorems, each closed by [exact]. *)
From Coq Require Import ZArith QArith List Bool Arith.
From RLV Require Import Model.Buffers Model.BufferRun Model.Persist Proofs.PersistProofs.
Import ListNotations.
Local Close Scope Q_scope.
Local Open Scope nat_scope.

(* ---------------------------------------------------------------- stored attributes *)
(** The attributes that [__getstate__] keeps determine the core state of every buffer
    class (nothing behaviour-relevant is outside them) and are determined by it. *)
Theorem C19_fields_determine_state :
  (forall b : rb Z, rb_dec (rb_enc b) = b) /\ (forall f, rb_enc (rb_dec f) = f) /\
  (forall b : lap Z, lap_dec (lap_enc b) = b) /\ (forall f, lap_enc (lap_dec f) = f) /\
  (forall b : sb, sb_dec (sb_enc b) = b) /\ (forall f, sb_enc (sb_dec f) = f) /\
  (forall b : sbp, sbp_dec (sbp_enc b) = b) /\ (forall f, sbp_enc (sbp_dec f) = f).
Proof.
  exact (conj rb_dec_enc (conj rb_enc_dec (conj lap_dec_enc (conj lap_enc_dec
        (conj sb_dec_enc (conj sb_enc_dec (conj sbp_dec_enc sbp_enc_dec))))))).
Qed.
Print Assumptions C19_fields_determine_state.

(* ---------------------------------------------------------------- generic single buffer *)
(** For any buffer class whose stored attributes [enc] determine its core state:
    [__setstate__] recomputes the Batch type from the stored keys and changes nothing
    else, whatever the Batch attribute of the saved object was ... *)
Theorem C19_load_rebuilds_batch : forall (T I : Type) (enc : T -> I) (dec : I -> T),
  (forall s, dec (enc s) = s) ->
  forall o : live T,
    l_keys (load dec (save enc o)) = l_keys o /\
    l_batch (load dec (save enc o)) = mk_batch (l_keys o) /\
    l_core (load dec (save enc o)) = l_core o.
Proof. exact @load_save_fields. Qed.
Print Assumptions C19_load_rebuilds_batch.

(** ... so an object that satisfies the constructor's invariant (Batch = namedtuple over
    the buffer's keys) is reproduced exactly, in EVERY state of its other attributes, *)
Theorem C19_load_save_id : forall (T I : Type) (enc : T -> I) (dec : I -> T),
  (forall s, dec (enc s) = s) ->
  forall o : live T, wf o -> load dec (save enc o) = o.
Proof. exact @load_save_id. Qed.
Print Assumptions C19_load_save_id.

(** ... and saving a loaded image gives the image back. *)
Theorem C19_save_load_id : forall (T I : Type) (enc : T -> I) (dec : I -> T),
  (forall i, enc (dec i) = i) ->
  forall i : image I, save enc (load dec i) = i /\ wf (load dec i).
Proof. exact (fun T I enc dec H i => conj (@save_load_id T I enc dec H i) (@load_wf T I dec i)). Qed.
Print Assumptions C19_save_load_id.

(** One operation: two live objects equal on every attribute except Batch return the
    same data and have successors equal on every attribute except Batch. *)
Theorem C19_state_sufficient : forall (T I P O : Type) (enc : T -> I) (dec : I -> T),
  (forall s, dec (enc s) = s) ->
  forall (step : T -> P -> T * O) (samples : P -> bool) (o1 o2 : live T) (p : P),
    save enc o1 = save enc o2 ->
    save enc (fst (lstep step samples o1 p)) = save enc (fst (lstep step samples o2 p)) /\
    fst (snd (lstep step samples o1 p)) = fst (snd (lstep step samples o2 p)).
Proof. exact @state_sufficient. Qed.
Print Assumptions C19_state_sufficient.

(** Every continuation from the reloaded object: same outputs (including the type of
    every returned batch) and same successor state as from the original. *)
Theorem C19_reload_continuation : forall (T I P O : Type) (enc : T -> I) (dec : I -> T),
  (forall s, dec (enc s) = s) -> (forall i, enc (dec i) = i) ->
  forall (step : T -> P -> T * O) (samples : P -> bool) (o : live T) (ops : list P),
    wf o ->
    run (lstep step samples) (load dec (save enc o)) ops = run (lstep step samples) o ops.
Proof. exact @reload_continuation. Qed.
Print Assumptions C19_reload_continuation.

(** Without the invariant on the original's Batch: stored attributes of the final
    state and all returned data still agree. *)
Theorem C19_reload_image_continuation : forall (T I P O : Type) (enc : T -> I) (dec : I -> T),
  (forall s, dec (enc s) = s) -> (forall i, enc (dec i) = i) ->
  forall (step : T -> P -> T * O) (samples : P -> bool) (o : live T) (ops : list P),
    save enc (fst (run (lstep step samples) (load dec (save enc o)) ops))
      = save enc (fst (run (lstep step samples) o ops)) /\
    map fst (snd (run (lstep step samples) (load dec (save enc o)) ops))
      = map fst (snd (run (lstep step samples) o ops)).
Proof. exact @reload_image_continuation. Qed.
Print Assumptions C19_reload_image_continuation.

(** A save taken after any prefix of a history, followed by any continuation: the
    image is that of the prefix state, the continuation's outputs on the reloaded
    object are the tail of the uninterrupted run's outputs, the final images agree. *)
Theorem C19_crash_point : forall (T I P O : Type) (enc : T -> I) (dec : I -> T),
  (forall s, dec (enc s) = s) -> (forall i, enc (dec i) = i) ->
  forall (step : T -> P -> T * O) (samples : P -> bool) (o0 : live T) (prefix cont : list P),
    wf o0 ->
    crash_run enc dec step samples o0 prefix cont =
    (save enc (fst (run (lstep step samples) o0 prefix)),
     skipn (length prefix) (snd (run (lstep step samples) o0 (prefix ++ cont))),
     save enc (fst (run (lstep step samples) o0 (prefix ++ cont)))).
Proof. exact @crash_point. Qed.
Print Assumptions C19_crash_point.

(** The lifted interpreter is the BufferRun interpreter on the core state. *)
Theorem C19_lifted_is_bufferrun : forall (T P O : Type) (step : T -> P -> T * O)
    (samples : P -> bool) (ops : list P) (o : live T),
  l_core (fst (run (lstep step samples) o ops)) = fst (run step (l_core o) ops) /\
  l_keys (fst (run (lstep step samples) o ops)) = l_keys o /\
  map fst (snd (run (lstep step samples) o ops)) = snd (run step (l_core o) ops).
Proof. exact @lift_core. Qed.
Print Assumptions C19_lifted_is_bufferrun.

(* ---------------------------------------------------------------- per class, on the BufferRun traces *)
(** ReplayBuffer: every state (reachable or not), every key list, every continuation. *)
Theorem C19_rb_reload : forall (b : rb Z) (ks : list key) (ops : list rop),
  rb_trace (l_core (load rb_dec (save rb_enc (fresh ks b)))) ops = rb_trace b ops /\
  run rb_lstep (load rb_dec (save rb_enc (fresh ks b))) ops = run rb_lstep (fresh ks b) ops.
Proof.
  exact (fun b ks ops => conj (rb_trace_reload b ks ops)
                              (rb_reload_continuation (fresh ks b) ops (fresh_wf ks b))).
Qed.
Print Assumptions C19_rb_reload.

(** LAP ([strat = false]) and PrioritizedReplayBuffer ([strat = true]). *)
Theorem C19_lap_reload : forall (strat : bool) (b : lap Z) (ks : list key) (ops : list lapop),
  lap_trace strat (l_core (load lap_dec (save lap_enc (fresh ks b)))) ops = lap_trace strat b ops /\
  run (lap_lstep strat) (load lap_dec (save lap_enc (fresh ks b))) ops = run (lap_lstep strat) (fresh ks b) ops.
Proof.
  exact (fun strat b ks ops => conj (lap_trace_reload strat b ks ops)
                                    (lap_reload_continuation strat (fresh ks b) ops (fresh_wf ks b))).
Qed.
Print Assumptions C19_lap_reload.

(** SubtrajectoryReplayBuffer (every sampling horizon list [hs]). *)
Theorem C19_sb_reload : forall (b : sb) (ks : list key) (hs : list nat) (rows : list srow),
  sb_trace (l_core (load sb_dec (save sb_enc (fresh ks b)))) hs rows = sb_trace b hs rows /\
  run (sb_lstep hs) (load sb_dec (save sb_enc (fresh ks b))) rows = run (sb_lstep hs) (fresh ks b) rows.
Proof.
  exact (fun b ks hs rows => conj (sb_trace_reload b ks hs rows)
                                  (sb_reload_continuation hs (fresh ks b) rows (fresh_wf ks b))).
Qed.
Print Assumptions C19_sb_reload.

(** SubtrajectoryReplayBufferPER. *)
Theorem C19_sbp_reload : forall (b : sbp) (ks : list key) (ops : list pop),
  sbp_trace (l_core (load sbp_dec (save sbp_enc (fresh ks b)))) ops = sbp_trace b ops /\
  run sbp_lstep (load sbp_dec (save sbp_enc (fresh ks b))) ops = run sbp_lstep (fresh ks b) ops.
Proof.
  exact (fun b ks ops => conj (sbp_trace_reload b ks ops)
                              (sbp_reload_continuation (fresh ks b) ops (fresh_wf ks b))).
Qed.
Print Assumptions C19_sbp_reload.

(* ---------------------------------------------------------------- multi-task wrapper *)
(** MultiTaskReplayBuffer (no [__getstate__]: its whole dict is stored, every
    sub-buffer through its own [__getstate__]); generic in the sub-buffer class. *)
Theorem C19_mt_load_save_id : forall (L IL : Type) (enc : L -> IL) (dec : IL -> L),
  (forall s, dec (enc s) = s) ->
  forall m : mt (live L), mt_wf m -> mt_load dec (mt_save enc m) = m.
Proof. exact @mt_load_save_id. Qed.
Print Assumptions C19_mt_load_save_id.

Theorem C19_mt_load_rebuilds_batch : forall (L IL : Type) (enc : L -> IL) (dec : IL -> L),
  (forall s, dec (enc s) = s) ->
  forall m : mt (live L),
    map l_batch (bufs (mt_load dec (mt_save enc m))) = map (fun o => mk_batch (l_keys o)) (bufs m) /\
    map l_keys (bufs (mt_load dec (mt_save enc m))) = map l_keys (bufs m) /\
    mt_core (mt_load dec (mt_save enc m)) = mt_core m.
Proof. exact @mt_load_rebuilds_batch. Qed.
Print Assumptions C19_mt_load_rebuilds_batch.

Theorem C19_mt_reload_continuation : forall (L IL P O : Type) (enc : L -> IL) (dec : IL -> L),
  (forall s, dec (enc s) = s) ->
  forall (step : mt L -> P -> mt L * O) (batch_of : P -> O -> option nat)
         (m : mt (live L)) (ops : list P),
    mt_wf m ->
    run (mt_lstep step batch_of) (mt_load dec (mt_save enc m)) ops = run (mt_lstep step batch_of) m ops.
Proof. exact @mt_reload_continuation. Qed.
Print Assumptions C19_mt_reload_continuation.

Theorem C19_mt_reload_image_continuation : forall (L IL P O : Type) (enc : L -> IL) (dec : IL -> L),
  (forall s, dec (enc s) = s) -> (forall i, enc (dec i) = i) ->
  forall (step : mt L -> P -> mt L * O) (batch_of : P -> O -> option nat)
         (m : mt (live L)) (ops : list P),
    mt_save enc (fst (run (mt_lstep step batch_of) (mt_load dec (mt_save enc m)) ops))
      = mt_save enc (fst (run (mt_lstep step batch_of) m ops)) /\
    map fst (snd (run (mt_lstep step batch_of) (mt_load dec (mt_save enc m)) ops))
      = map fst (snd (run (mt_lstep step batch_of) m ops)).
Proof. exact @mt_reload_image_continuation. Qed.
Print Assumptions C19_mt_reload_image_continuation.

Theorem C19_mt_crash_point : forall (L IL P O : Type) (enc : L -> IL) (dec : IL -> L),
  (forall s, dec (enc s) = s) ->
  forall (step : mt L -> P -> mt L * O) (batch_of : P -> O -> option nat)
         (m0 : mt (live L)) (prefix cont : list P),
    mt_wf m0 ->
    mt_crash_run enc dec step batch_of m0 prefix cont =
    (mt_save enc (fst (run (mt_lstep step batch_of) m0 prefix)),
     skipn (length prefix) (snd (run (mt_lstep step batch_of) m0 (prefix ++ cont))),
     mt_save enc (fst (run (mt_lstep step batch_of) m0 (prefix ++ cont)))).
Proof. exact @mt_crash_point. Qed.
Print Assumptions C19_mt_crash_point.

Theorem C19_mt_lifted_is_bufferrun : forall (L P O : Type) (step : mt L -> P -> mt L * O)
    (batch_of : P -> O -> option nat),
  (forall m p, length (bufs (fst (step m p))) = length (bufs m)) ->
  forall (ops : list P) (m : mt (live L)),
    mt_core (fst (run (mt_lstep step batch_of) m ops)) = fst (run step (mt_core m) ops) /\
    map fst (snd (run (mt_lstep step batch_of) m ops)) = snd (run step (mt_core m) ops).
Proof. exact @mt_lift_core. Qed.
Print Assumptions C19_mt_lifted_is_bufferrun.

(** On the BufferRun traces of the wrapper over LAP and over ReplayBuffer: every state. *)
Theorem C19_mt_lap_reload : forall (m : mt (lap Z)) (ks : list key) (ops : list mop),
  mt_trace (mt_core (mt_load lap_dec (mt_save lap_enc (mt_fresh ks m)))) ops = mt_trace m ops /\
  (forall p, length (bufs (fst (mt_step m p))) = length (bufs m)).
Proof. exact (fun m ks ops => conj (mt_trace_reload m ks ops) (mt_step_len m)). Qed.
Print Assumptions C19_mt_lap_reload.

Theorem C19_mt_uniform_reload : forall (m : mt (rb Z)) (ks : list key) (ops : list uop),
  mtu_trace (mt_core (mt_load rb_dec (mt_save rb_enc (mt_fresh ks m)))) ops = mtu_trace m ops /\
  (forall p, length (bufs (fst (mtu_step m p))) = length (bufs m)).
Proof. exact (fun m ks ops => conj (mtu_trace_reload m ks ops) (mtu_step_len m)). Qed.
Print Assumptions C19_mt_uniform_reload.

(* ---------------------------------------------------------------- necessity *)
(** The theorem is not decorative: a reload that loses one attribute (and puts the
    constructor's value in its place) does not satisfy reload-continuation, on a
    reachable state. *)
Theorem C19_insert_idx_needed :
  exists h ops, let s := after_rb 3 h in rb_trace (forget_ins s) ops <> rb_trace s ops.
Proof. exact rb_insert_idx_field_needed. Qed.
Print Assumptions C19_insert_idx_needed.
Theorem C19_current_len_needed :
  exists h ops, let s := after_rb 3 h in rb_trace (forget_len s) ops <> rb_trace s ops.
Proof. exact rb_current_len_field_needed. Qed.
Print Assumptions C19_current_len_needed.
Theorem C19_max_priority_needed :
  exists strat h ops, let s := after_lap strat 4 h in
    lap_trace strat (forget_maxp s) ops <> lap_trace strat s ops.
Proof. exact lap_maxp_field_needed. Qed.
Print Assumptions C19_max_priority_needed.
Theorem C19_sampled_indices_needed :
  (exists strat h ops, let s := after_lap strat 4 h in
     lap_trace strat (forget_sampled s) ops <> lap_trace strat s ops) /\
  (exists h ops, let s := after_lap true 4 h in
     lap_trace true (forget_sampled s) ops <> lap_trace true s ops).
Proof. exact (conj lap_sampled_field_needed per_sampled_field_needed). Qed.
Print Assumptions C19_sampled_indices_needed.
Theorem C19_priority_needed :
  exists strat h ops, let s := after_lap strat 4 h in
    lap_trace strat (forget_prio s) ops <> lap_trace strat s ops.
Proof. exact lap_priority_field_needed. Qed.
Print Assumptions C19_priority_needed.
Theorem C19_episode_timesteps_needed :
  exists h hs rows, let s := after_sb 6 2 h in
    sb_trace (forget_ept s) hs rows <> sb_trace s hs rows.
Proof. exact sb_ept_field_needed. Qed.
Print Assumptions C19_episode_timesteps_needed.
Theorem C19_mask_needed :
  (exists h hs rows, let s := after_sb 6 2 h in
     sb_trace (forget_mask s) hs rows <> sb_trace s hs rows) /\
  (exists h ops, let s := after_sbp 6 2 h in
     sbp_trace (forget_mask_p s) ops <> sbp_trace s ops).
Proof. exact (conj sb_mask_field_needed sbp_mask_field_needed). Qed.
Print Assumptions C19_mask_needed.
Theorem C19_multitask_fields_needed :
  (exists h ops, let s := after_mt 3 2 h in mt_trace (forget_active s) ops <> mt_trace s ops) /\
  (exists h ops, let s := after_mt 3 2 h in mt_trace (forget_sampled_task s) ops <> mt_trace s ops) /\
  (exists h ops, let s := after_mt 3 2 h in mt_trace (forget_selected s) ops <> mt_trace s ops).
Proof. exact (conj mt_active_field_needed (conj mt_sampled_task_field_needed mt_selected_field_needed)). Qed.
Print Assumptions C19_multitask_fields_needed.
Theorem C19_batch_rebuild_needed :
  exists ks N h ops,
    let o := fst (run rb_lstep (rb_live_init ks N) h) in
    let bad := {| l_keys := l_keys o; l_batch := []; l_core := l_core o |} in
    snd (run rb_lstep bad ops) <> snd (run rb_lstep o ops).
Proof. exact batch_rebuild_needed. Qed.
Print Assumptions C19_batch_rebuild_needed.

(* ---------------------------------------------------------------- parameter trees *)
(** save_pickle / load_pickle: identity on the graph, the paths and the leaves. *)
Theorem C19_tree_roundtrip_pickle : forall (V G : Type) (m : nmodule V G),
  load_pickle (save_pickle m) (m_graph m) = m.
Proof. exact @tree_roundtrip_pickle. Qed.
Print Assumptions C19_tree_roundtrip_pickle.

(** OrbaxCheckpointer.save_model, then StandardCheckpointer.restore into the state of a
    fresh module of the same architecture (same graph, same paths, any leaf values),
    then nnx.update. *)
Theorem C19_tree_roundtrip_orbax : forall (V G : Type) (m fresh_m : nmodule V G),
  NoDup (map fst (m_params m)) ->
  m_graph fresh_m = m_graph m ->
  map fst (m_params fresh_m) = map fst (m_params m) ->
  orbax_reload (orbax_save m) fresh_m = Some m.
Proof. exact @tree_roundtrip_orbax. Qed.
Print Assumptions C19_tree_roundtrip_orbax.

(** A checkpoint that lacks a leaf of the target is rejected, not silently completed. *)
Theorem C19_orbax_restore_missing : forall (V : Type) (file target : tree V) p v,
  In (p, v) target -> lookup p file = None -> orbax_restore file target = None.
Proof. exact @orbax_restore_missing. Qed.
Print Assumptions C19_orbax_restore_missing.

(** probabilistic_ensemble.restore_checkpoint (restores into the model's own state structure). *)
Theorem C19_tree_roundtrip_restore_checkpoint : forall (V G : Type) (m model : nmodule V G),
  NoDup (map fst (m_params m)) -> m_graph model = m_graph m -> map fst (m_params model) = map fst (m_params m) ->
  restore_checkpoint (orbax_save m) model = Some m.
Proof. exact @tree_roundtrip_restore_checkpoint. Qed.
Print Assumptions C19_tree_roundtrip_restore_checkpoint.

(** restoring without a target (the code before the repair in /repo) pairs leaves by the order of their
    *string* keys: refuted for a module with eleven list entries, although it is the identity up to ten *)
Theorem C19_restore_untargeted_refuted :
  exists m model : nmodule Z unit,
    NoDup (map fst (m_params m)) /\ m_graph model = m_graph m /\ map fst (m_params model) = map fst (m_params m) /\
    restore_untargeted (orbax_save m) model <> m.
Proof. exact restore_untargeted_refuted. Qed.
Print Assumptions C19_restore_untargeted_refuted.
Theorem C19_restore_untargeted_partial : forall n, n <= 10 ->
  restore_untargeted (orbax_save {| m_graph := tt; m_params := chain n |}) {| m_graph := tt; m_params := chain n |}
  = {| m_graph := tt; m_params := chain n |}.
Proof. exact restore_untargeted_small. Qed.
Print Assumptions C19_restore_untargeted_partial.

(** Extensionality: two parameter trees with the same paths and equal leaves give equal
    outputs for any forward function and any input. *)
Theorem C19_tree_ext : forall (V G X Y : Type) (fwd : G -> tree V -> X -> Y) (g : G) (t1 t2 : tree V),
  map fst t1 = map fst t2 -> map snd t1 = map snd t2 -> forall x, fwd g t1 x = fwd g t2 x.
Proof. exact @tree_ext. Qed.
Print Assumptions C19_tree_ext.

(** Same outputs for the same inputs after each of the three reload paths. *)
Theorem C19_reload_same_outputs : forall (V G X Y : Type) (fwd : G -> tree V -> X -> Y)
    (m fresh_m : nmodule V G),
  NoDup (map fst (m_params m)) ->
  m_graph fresh_m = m_graph m ->
  map fst (m_params fresh_m) = map fst (m_params m) ->
  let out (k : nmodule V G) x := fwd (m_graph k) (m_params k) x in
  (forall x, out (load_pickle (save_pickle m) (m_graph fresh_m)) x = out m x) /\
  (forall x, option_map (fun k => out k x) (orbax_reload (orbax_save m) fresh_m) = Some (out m x)) /\
  (forall x, option_map (fun k => out k x) (restore_checkpoint (orbax_save m) fresh_m) = Some (out m x)).
Proof. exact @reload_same_outputs. Qed.
Print Assumptions C19_reload_same_outputs.

(** The checkpoint directory written by the checkpointing logger: after any history of record_epoch calls
    (any step values - repeated, decreasing - and any outcome of the frequency rule) every listed path
    restores to the value written under it, and one path is listed per save. *)
Theorem C19_checkpoint_history_restores : forall (V : Type) (h : list (Z * bool * V)),
  ck_restore_all name_step_epoch h = map Some (ck_saved h).
Proof. exact @ck_history_restores. Qed.
Print Assumptions C19_checkpoint_history_restores.
Theorem C19_checkpoint_history_paths : forall (V : Type) (naming : Z -> Z -> ck_name) (h : list (Z * bool * V)),
  length (ck_paths (ck_run naming h)) = length (ck_saved h).
Proof. exact @ck_history_paths_length. Qed.
Print Assumptions C19_checkpoint_history_paths.
Theorem C19_checkpoint_step_only_refuted :
  exists h : list (Z * bool * Z), ck_restore_all name_step_only h <> map Some (ck_saved h).
Proof. exact ck_step_only_refuted. Qed.
Print Assumptions C19_checkpoint_step_only_refuted.
