(** C06 — target networks follow the Polyak / hard-copy law, only at update points.
    Only property theorems, each closed by [exact]. *)
From Coq Require Import Reals List Bool Arith.
From RLV Require Import Model.Num Model.Target Proofs.TargetBoundsProofs.
Import ListNotations.
Local Open Scope R_scope.

Theorem C06_polyak_leafwise : forall tau (online target : tree) j i,
  (j < length online)%nat -> (j < length target)%nat ->
  (i < length (nth j online []))%nat -> (i < length (nth j target []))%nat ->
  nth i (nth j (soft_update tau online target) []) 0 =
  tau * nth i (nth j online []) 0 + (1 - tau) * nth i (nth j target []) 0.
Proof. exact polyak_leafwise. Qed.
Print Assumptions C06_polyak_leafwise.

Theorem C06_soft_update_keeps_shape : forall tau (online target : tree), same_shape_tree online target ->
  same_shape_tree (soft_update tau online target) target.
Proof. exact soft_update_shape. Qed.
Print Assumptions C06_soft_update_keeps_shape.

Theorem C06_tau_one_is_hard_copy : forall online target : tree, same_shape_tree online target ->
  soft_update 1 online target = hard_update online target.
Proof. exact polyak_one_is_copy. Qed.
Print Assumptions C06_tau_one_is_hard_copy.

Theorem C06_tau_zero_is_noop : forall online target : tree, same_shape_tree online target ->
  soft_update 0 online target = target.
Proof. exact polyak_zero_is_noop. Qed.
Print Assumptions C06_tau_zero_is_noop.

(** over a training run the target changes only in iterations where the cadence predicate
    holds, and then by exactly the law applied to that iteration's online parameters *)
Theorem C06_target_changes_only_when_due :
  forall (law : tree (F := R) -> tree (F := R) -> tree (F := R)) due online n t0 k0 i, (i < n)%nat ->
  let tr := target_trace law due online t0 k0 n in
  let prev := match i with O => t0 | S i' => nth i' tr [] end in
  nth i tr [] = if due (k0 + i)%nat then law (online (k0 + i)%nat) prev else prev.
Proof. exact target_changes_only_when_due. Qed.
Print Assumptions C06_target_changes_only_when_due.

(** a soft update applied d times at one update point is a single step with coefficient 1 - (1 - tau)^d, not tau:
    refuted as an implementation of the documented rule *)
Theorem C06_repeated_soft_update : forall (tau o t : R) (d : nat),
  Nat.iter d (polyak tau o) t = polyak (1 - (1 - tau) ^ d) o t.
Proof. exact polyak_iter. Qed.
Print Assumptions C06_repeated_soft_update.
Theorem C06_repeated_soft_update_refuted : exists tau o t : R, 0 < tau < 1 /\ polyak tau o (polyak tau o t) <> polyak tau o t.
Proof. exact polyak_twice_refuted. Qed.
Print Assumptions C06_repeated_soft_update_refuted.
