(** C18 — numeric building blocks: two-hot coding, robust losses, norms, schedules.
    Only property theorems, each closed by [exact]. *)
From Coq Require Import Reals List Bool Arith.
From RLV Require Import Model.Num Model.Buffers Model.Tensor Model.Blocks Proofs.BlocksProofs.
Import ListNotations.
Local Open Scope R_scope.

(** Two-hot encoding of any value inside the range of strictly increasing bins (edges
    included; total range below the code's 1e8 offset): non-negative row summing to one,
    at most two adjacent non-zero entries, decoding returns the value. *)
Theorem C18_two_hot : forall (bins : list R) x, incr bins -> (2 <= length bins)%nat ->
  nth 0 bins 0 <= x -> x <= last bins 0 -> last bins 0 - nth 0 bins 0 < big8R ->
  let row := two_hot_row bins x in
  length row = length bins /\ Forall (fun v => 0 <= v) row /\ rsum row = 1 /\ dot row bins = x /\
  exists j, (S j < length bins)%nat /\ forall k, k <> j -> k <> S j -> nth k row 0 = 0.
Proof. exact two_hot_spec. Qed.
Print Assumptions C18_two_hot.

Theorem C18_symexp_bins_increasing : forall lo hi n, lo < hi -> (2 <= n)%nat ->
  incr (make_two_hot_bins lo hi n).
Proof. exact symexp_bins_increasing. Qed.
Print Assumptions C18_symexp_bins_increasing.

Theorem C18_log_softmax : forall (l : list R) i, (i < length l)%nat ->
  nth i (log_softmax l) 0 = ln (exp (nth i l 0) / rsum (map exp l)).
Proof. exact log_softmax_spec. Qed.
Print Assumptions C18_log_softmax.

Theorem C18_two_hot_cross_entropy : forall (bins logits : list R) target,
  two_hot_ce_row bins logits target = - dot (two_hot_row bins target) (log_softmax logits).
Proof. exact two_hot_ce_spec. Qed.
Print Assumptions C18_two_hot_cross_entropy.

Theorem C18_huber_piecewise : forall e delta, 0 <= e -> 0 <= delta ->
  huber e delta = if Rle_dec e delta then / 2 * (e * e) else delta * (e - / 2 * delta).
Proof. exact huber_piecewise. Qed.
Print Assumptions C18_huber_piecewise.

Theorem C18_masked_rows_zero_weight : forall n d (P P' T : list (list R)) (mask : list R),
  (1 <= d)%nat -> mat n d P -> mat n d P' -> mat n d T -> length mask = n ->
  (forall i, (i < n)%nat -> nth i mask 0 <> 0 -> nth i P [] = nth i P' []) ->
  masked_mse_loss (T2 P) (T2 T) mask = masked_mse_loss (T2 P') (T2 T) mask.
Proof. exact masked_rows_zero_weight. Qed.
Print Assumptions C18_masked_rows_zero_weight.

Theorem C18_masked_mse_closed_form : forall n d (P T : list (list R)) (mask : list R),
  (1 <= d)%nat -> mat n d P -> mat n d T -> length mask = n ->
  masked_mse_loss (T2 P) (T2 T) mask =
  Ok (nmean (concat (zipw (fun row m => map (fun x => x * m) row) (zipw (zipw sqerr) P T) mask))).
Proof. exact masked_mse_2d. Qed.
Print Assumptions C18_masked_mse_closed_form.

(** 1-D predictions: every sample is weighted by its own mask entry. *)
Theorem C18_masked_mse_1d : forall (p t mask : list R), length p = length t -> length mask = length p ->
  masked_mse_loss (T1 p) (T1 t) mask = Ok (nmean (zipw (fun x m => x * m) (zipw sqerr p t) mask)).
Proof. exact masked_mse_1d. Qed.
Print Assumptions C18_masked_mse_1d.

Theorem C18_avg_l1_mean_abs_one : forall (x : list R) eps,
  x <> [] -> 0 < eps -> eps <= nmean (map nabs x) -> nmean (map nabs (avg_l1_norm x eps)) = 1.
Proof. exact avg_l1_mean_abs_one. Qed.
Print Assumptions C18_avg_l1_mean_abs_one.

Theorem C18_avg_l1_finite : forall (x : list R) eps i, 0 < eps ->
  Rabs (nth i (avg_l1_norm x eps) 0) <= Rabs (nth i x 0) / eps.
Proof. exact avg_l1_finite. Qed.
Print Assumptions C18_avg_l1_finite.

Theorem C18_schedule_length : forall total (a b : R) k, length (linear_schedule_k total a b k) = total.
Proof. exact schedule_length. Qed.
Print Assumptions C18_schedule_length.

Theorem C18_schedule_monotone : forall total (a b : R) k i j, (k <= total)%nat -> b <= a ->
  (i <= j < total)%nat ->
  nth j (linear_schedule_k total a b k) 0 <= nth i (linear_schedule_k total a b k) 0.
Proof. exact schedule_monotone. Qed.
Print Assumptions C18_schedule_monotone.

Theorem C18_schedule_starts_at_start : forall total (a b : R) k, (1 <= k <= total)%nat ->
  nth 0 (linear_schedule_k total a b k) 0 = a.
Proof. exact schedule_starts_at_start. Qed.
Print Assumptions C18_schedule_starts_at_start.

Theorem C18_schedule_tail_const : forall total (a b : R) k i, (k <= i < total)%nat ->
  nth i (linear_schedule_k total a b k) 0 = b.
Proof. exact schedule_tail_const. Qed.
Print Assumptions C18_schedule_tail_const.
