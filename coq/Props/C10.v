(** C10 — actions sent to the environment respect the action-space bounds.
    Only property theorems, each closed by [exact]. Per action dimension, over R. *)
From Coq Require Import Reals List Bool Arith.
From RLV Require Import Model.Num Model.Bounds Proofs.TargetBoundsProofs.
Import ListNotations.
Local Open Scope R_scope.

Theorem C10_clip_in_bounds : forall x lo hi, lo <= hi -> lo <= nclip x lo hi <= hi.
Proof. exact clip_in_bounds. Qed.
Print Assumptions C10_clip_in_bounds.

Theorem C10_explore_in_bounds : forall pi noise low high eps, low <= high ->
  low <= sample_action pi noise low high eps <= high.
Proof. exact explore_in_bounds. Qed.
Print Assumptions C10_explore_in_bounds.

Theorem C10_explore_pre_clip_form : forall pi noise low high eps,
  explore_pre pi noise low high eps = pi + noise * ((high - low) / 2) * eps.
Proof. exact explore_pre_clip_form. Qed.
Print Assumptions C10_explore_pre_clip_form.

Theorem C10_target_noise_bounded : forall noise c low high eps, low <= high -> 0 <= c ->
  Rabs (target_noise noise c low high eps) <= c * ((high - low) / 2).
Proof. exact target_noise_bounded. Qed.
Print Assumptions C10_target_noise_bounded.

Theorem C10_target_in_bounds : forall pi noise c low high eps, low <= high ->
  low <= sample_target_action pi noise c low high eps <= high.
Proof. exact target_in_bounds. Qed.
Print Assumptions C10_target_in_bounds.

(** any network output, however large, is mapped into the box by tanh scaling *)
Theorem C10_tanh_scaled_in_bounds : forall y low high : R, low <= high ->
  low <= Rtanh y * ((high - low) / 2) + (high + low) / 2 <= high.
Proof. exact tanh_scaled_in_bounds. Qed.
Print Assumptions C10_tanh_scaled_in_bounds.

(** cross-entropy planner candidates (truncated-normal draw |z| <= 2, mean inside the box) *)
Theorem C10_cem_candidate_in_bounds : forall mean var lb ub z, lb <= mean <= ub -> 0 <= var -> -2 <= z <= 2 ->
  lb <= cem_candidate mean var lb ub z <= ub.
Proof. exact cem_candidate_in_bounds. Qed.
Print Assumptions C10_cem_candidate_in_bounds.
