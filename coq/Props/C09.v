(** C09 — training is a deterministic function of seed, initial state and environment.
    LEVEL: partial.  Proved here, for all seeds and configurations: no syntactically visible
    ambient source (unseeded global randomness, time outside the exempt logging clock,
    ids / hashes, os entropy, iteration over a set of evidently non-numeric elements) is
    reachable from any entry point of the call graph regenerated from the sources on this run,
    and absence of such a node implies non-interference with the ambient world for every code
    table that respects the graph.  NOT proved (observed by the twin runs of harness/c09.py):
    that the translator's graph over-approximates the real calls, determinism of XLA kernels,
    of Gymnasium, and of dict / set iteration over keys whose type is invisible syntactically.
    Only property theorems, the general ones closed by [exact]. *)
From Coq Require Import List Arith NArith Bool.
From RLV Require Import Model.EffectGraph Proofs.EffectGraphProofs.
From RLV Require Gen.Graph.
Import ListNotations.

(** The fuel-bounded frontier closure computes exactly the inductively defined reachability
    relation, for every finite graph, every root list and every fuel >= |universe| + 1. *)
Theorem C09_reach_sound : forall g roots fuel n,
  In n (closure g roots fuel) -> Reach g roots n.
Proof. exact reach_sound. Qed.
Print Assumptions C09_reach_sound.

Theorem C09_reach_complete : forall g roots fuel,
  enough_fuel g roots <= fuel ->
  forall n, Reach g roots n -> In n (closure g roots fuel).
Proof. exact reach_complete. Qed.
Print Assumptions C09_reach_complete.

(** For a closed graph (every root and callee has a node) fuel = number of nodes + 1 suffices. *)
Theorem C09_reach_complete_closed : forall g roots fuel,
  closed_graph g roots = true -> S (length g) <= fuel ->
  forall n, Reach g roots n -> In n (closure g roots fuel).
Proof. exact reach_complete_closed. Qed.
Print Assumptions C09_reach_complete_closed.

(** The boolean check decides "no Ambient node is reachable" (a callee without a node counts
    as Ambient): sound ... *)
Theorem C09_ambient_free_sound : forall g roots,
  ambient_free g roots = true ->
  forall n, Reach g roots n ->
  label_of g n = Pure \/ label_of g n = Seeded \/ label_of g n = WallClock.
Proof. exact ambient_free_labels. Qed.
Print Assumptions C09_ambient_free_sound.

(** ... and complete: when it fails there IS a reachable Ambient node (a failing run is a
    true finding about the graph, not an artefact of the fuel). *)
Theorem C09_ambient_free_complete : forall g roots,
  ambient_free g roots = false -> exists n, Reach g roots n /\ label_of g n = Ambient.
Proof. exact ambient_free_complete. Qed.
Print Assumptions C09_ambient_free_complete.

(** Non-interference.  Function bodies are programs that return, call a function, or read the
    ambient world; a code table respects the graph if node n only calls its listed callees and
    only reads the world when labelled Ambient.  If the check passes, then for every entry
    point, argument and fuel, two evaluations in two arbitrary worlds (of any types, with any
    read functions and initial states) run out of fuel together or return the same value. *)
Theorem C09_no_ambient_noninterference :
  forall (V : Type) (g : graph) (roots : list N) (code : code_table V),
  ambient_free g roots = true -> respects V g code ->
  forall (W1 W2 : Type) (read1 : W1 -> V -> V * W1) (read2 : W2 -> V -> V * W2),
  forall fuel r a w1 w2, In r roots ->
  result V W1 read1 code fuel w1 r a = result V W2 read2 code fuel w2 r a.
Proof. exact ambient_free_noninterference. Qed.
Print Assumptions C09_no_ambient_noninterference.

(** PER-RUN OBLIGATION about the regenerated model.  This is the only place where [vm_compute]
    decides something: it evaluates the boolean [ambient_free] on the finite graph that
    harness/c09_translate.py produced from the sources of THIS run.  It is a finite decision,
    lifted to the statement about all reachable nodes by [C09_ambient_free_sound] and to
    non-interference by [C09_no_ambient_noninterference] (see [C09_generated_*] below).  If an
    Ambient node becomes reachable (or the translator aborts and writes its fail-closed
    graph) this theorem does not compile and the check reports it. *)
Theorem C09_graph_ok : ambient_free Gen.Graph.graph Gen.Graph.roots = true.
Proof. vm_compute. reflexivity. Qed.
Print Assumptions C09_graph_ok.

Theorem C09_generated_no_ambient_reachable :
  forall n, Reach Gen.Graph.graph Gen.Graph.roots n ->
  label_of Gen.Graph.graph n = Pure \/ label_of Gen.Graph.graph n = Seeded \/
  label_of Gen.Graph.graph n = WallClock.
Proof. exact (ambient_free_labels Gen.Graph.graph Gen.Graph.roots C09_graph_ok). Qed.
Print Assumptions C09_generated_no_ambient_reachable.

Theorem C09_generated_noninterference :
  forall (V : Type) (code : code_table V), respects V Gen.Graph.graph code ->
  forall (W1 W2 : Type) (read1 : W1 -> V -> V * W1) (read2 : W2 -> V -> V * W2),
  forall fuel r a w1 w2, In r Gen.Graph.roots ->
  result V W1 read1 code fuel w1 r a = result V W2 read2 code fuel w2 r a.
Proof.
  exact (fun V code => ambient_free_noninterference V Gen.Graph.graph Gen.Graph.roots code C09_graph_ok).
Qed.
Print Assumptions C09_generated_noninterference.
