(** C11 — step budget, episode discipline and step accounting are exact (loop skeleton).
    Only property theorems, each closed by [exact]. *)
From Coq Require Import List Arith Bool.
From RLV Require Import Model.Loop Proofs.LoopProofs.
From RLV Require Model.Sched Proofs.SchedProofs.
Import ListNotations.

(** never more environment steps than the remaining budget; the returned counter equals the
    starting count plus the steps executed — for every script, budget, start, limit and gate *)
Theorem C11_steps_le_budget_and_accounting : forall c script start,
  let s := train c script start in
  count_steps (l_log s) <= c_budget c - start /\ l_step s = start + count_steps (l_log s).
Proof. exact steps_le_budget. Qed.
Print Assumptions C11_steps_le_budget_and_accounting.

(** an environment whose episode has ended is never stepped without a reset *)
Theorem C11_never_steps_finished_env : forall c script start,
  e_violated (l_env (train c script start)) = false.
Proof. exact never_steps_finished_env. Qed.
Print Assumptions C11_never_steps_finished_env.

(** updates run only in iterations admitted by the gate (inside this call's step range) ... *)
Theorem C11_no_update_outside_gate : forall c script start,
  Forall (fun u => c_gate c u = true /\ start <= u < l_step (train c script start)) (l_updates (train c script start)).
Proof. exact no_update_outside_gate. Qed.
Print Assumptions C11_no_update_outside_gate.

(** ... hence never before a warm-up threshold implied by the gate *)
Theorem C11_no_update_before_warmup : forall ls (c : cfg) script start,
  (forall u, c_gate c u = true -> ls <= u) -> Forall (fun u => ls <= u) (l_updates (train c script start)).
Proof. exact no_update_before_warmup. Qed.
Print Assumptions C11_no_update_before_warmup.

(** the loop stops once the requested number of episodes has finished, and not earlier *)
Theorem C11_stops_at_episode_limit : forall c script start E, c_limit c = Some E -> 1 <= E ->
  let s := train c script start in
  count_episodes (l_log s) <= E /\ (l_stop s = true <-> count_episodes (l_log s) = E).
Proof. exact stops_at_episode_limit. Qed.
Print Assumptions C11_stops_at_episode_limit.

(* ------------------------------------------------------------------ *)
(** Task selectors and the discounted-UCB bandit (blox/multitask.py, blox/mapb.py) *)
From Coq Require Import Reals.
From RLV Require Import Model.Num Model.Bandit Proofs.BanditProofs.

(** an accepted sequence of select / feedback calls strictly alternates, starting with select *)
Theorem C11_selector_alternates : forall ops w', sel_run false ops = Some w' -> alternates OpSelect ops.
Proof. exact (fun ops w' H => sel_run_alternates ops false w' H). Qed.
Print Assumptions C11_selector_alternates.

(** round robin: only valid positions, and every task within any n consecutive selections *)
Theorem C11_round_robin_valid : forall n, 0 < n -> forall k i, Forall (fun t => t < n) (rr_run i n k).
Proof. exact rr_valid. Qed.
Print Assumptions C11_round_robin_valid.
Theorem C11_round_robin_covers : forall n, 0 < n -> forall i t, t < n -> exists j, j < n /\ nth j (rr_run i n n) 0 = t.
Proof. exact rr_covers. Qed.
Print Assumptions C11_round_robin_covers.

(** discounted UCB: always a valid arm; round robin over the arms during the first 2n rounds;
    afterwards an arm maximising discounted mean reward plus exploration bonus *)
Theorem C11_ducb_valid_arm : forall (ub g zeta : R) n, 0 < n -> forall hist, ducb_choose ub g zeta n hist < n.
Proof. exact ducb_valid. Qed.
Print Assumptions C11_ducb_valid_arm.
Theorem C11_ducb_initial_rounds : forall (ub g zeta : R) n, 0 < n -> forall rewards hist k,
  length hist + k < 2 * n -> k < length rewards ->
  nth k (ducb_run ub g zeta n hist rewards) 0 = (length hist + k) mod n.
Proof. exact ducb_run_initial. Qed.
Print Assumptions C11_ducb_initial_rounds.
Theorem C11_ducb_maximises : forall (ub g zeta : R) n, 0 < n -> forall hist, 2 * n <= length hist ->
  forall arm, arm < n -> (dscore ub g zeta n hist arm <= dscore ub g zeta n hist (ducb_choose ub g zeta n hist))%R.
Proof. exact ducb_maximises. Qed.
Print Assumptions C11_ducb_maximises.

(** The warm-up handed to the backbone by the multi-task schedulers (Model/Sched.v): for every sequence of
    scheduled episode lengths, budget and warm-up, a backbone that updates once its absolute step counter
    has reached the learning_starts it is given performs exactly the updates of the executed steps from
    the scheduler's warm-up on - none before it - and the final counter stays within the budget.
    Handing over "the remaining exploration steps" instead breaks this. *)
Theorem C11_scheduler_warmup : forall (warm budget : nat) (lens : list nat) (g : nat),
  let r := RLV.Model.Sched.sched_run RLV.Model.Sched.PassThrough warm budget lens g in
  fst r = filter (fun s => Nat.leb warm s) (seq g (snd r - g)) /\
  Forall (fun s => warm <= s) (fst r) /\ g <= snd r /\ (g <= budget -> snd r <= budget).
Proof.
  exact (fun warm budget lens g =>
    conj (RLV.Proofs.SchedProofs.sched_pass_through_updates warm budget lens g)
      (conj (RLV.Proofs.SchedProofs.sched_pass_through_no_early_update warm budget lens g)
        (conj (RLV.Proofs.SchedProofs.sched_run_final_ge _ warm budget lens g)
              (RLV.Proofs.SchedProofs.sched_run_final_le _ warm budget lens g)))).
Qed.
Print Assumptions C11_scheduler_warmup.
Theorem C11_scheduler_remaining_warmup_refuted :
  exists warm budget lens, ~ Forall (fun s => warm <= s) (fst (RLV.Model.Sched.sched_run RLV.Model.Sched.Remaining warm budget lens 0)).
Proof. exact RLV.Proofs.SchedProofs.sched_remaining_refuted. Qed.
Print Assumptions C11_scheduler_remaining_warmup_refuted.
