(** C14 — tabular learners apply their textbook update to exactly one entry.
    Only property theorems, each closed by [exact]. *)
From Coq Require Import Reals List Bool Arith.
From RLV Require Import Model.Num Model.Buffers Model.Tabular Proofs.TabularProofs.
Import ListNotations.
Local Open Scope R_scope.

(** Q-learning / SARSA update (_update_policy): only entry (s,a) changes, by
    lr * (r + gamma (1 - terminated) Q(s',a') - Q(s,a)). *)
Theorem C14_update_policy : forall ns na (t : table) , wf ns na t ->
  forall s a s' r gamma lr term, (s < ns)%nat -> (a < na)%nat -> forall a' s1 a1,
  tget (update_policy t s a r s' a' gamma term lr) s1 a1 =
  if Nat.eqb s s1 && Nat.eqb a a1
  then tget t s a + lr * (r + gamma * ((1 - bool01 term) * tget t s' a') - tget t s a)
  else tget t s1 a1.
Proof. exact update_policy_spec. Qed.
Print Assumptions C14_update_policy.

(** Q-learning as the loop runs it: the bootstrap is the greedy = maximal value at s'. *)
Theorem C14_q_learning_step : forall ns na (t : table), wf ns na t ->
  forall s a s' r gamma lr term, (s < ns)%nat -> (a < na)%nat -> forall s1 a1,
  (s' < ns)%nat -> (0 < na)%nat ->
  let vmax := tget t s' (greedy t s') in
  Forall (fun x => x <= vmax) (trow t s') /\
  tget (q_learning_step t s a r s' gamma term lr) s1 a1 =
  if Nat.eqb s s1 && Nat.eqb a a1
  then tget t s a + lr * (r + gamma * ((1 - bool01 term) * vmax) - tget t s a)
  else tget t s1 a1.
Proof. exact q_learning_step_spec. Qed.
Print Assumptions C14_q_learning_step.

(** Double Q-learning: other table's value of the updated table's greedy action AT THE SUCCESSOR. *)
Theorem C14_double_q_update : forall ns na (t t2 : table), wf ns na t ->
  forall s a s' r gamma lr term, (s < ns)%nat -> (a < na)%nat -> forall s1 a1,
  tget (dql_update t t2 s a r s' gamma lr term) s1 a1 =
  if Nat.eqb s s1 && Nat.eqb a a1
  then tget t s a + lr * (r + gamma * ((1 - bool01 term) * tget t2 s' (greedy t s')) - tget t s a)
  else tget t s1 a1.
Proof. exact dql_update_spec. Qed.
Print Assumptions C14_double_q_update.

Theorem C14_greedy_is_max : forall l : list R, l <> [] ->
  (nargmax l < length l)%nat /\ Forall (fun x => x <= nth (nargmax l) l 0) l /\
  (forall j, (j < nargmax l)%nat -> nth j l 0 < nth (nargmax l) l 0).
Proof. exact argmax_is_max. Qed.
Print Assumptions C14_greedy_is_max.

(** Monte-Carlo control: every visited entry is the arithmetic mean of its observed
    discounted returns, for every sequence of episodes. *)
Theorem C14_mc_running_mean : forall ns na gamma episodes q0,
  wf ns na q0 ->
  Forall (Forall (fun v => (fst (fst v) < ns)%nat /\ (snd (fst v) < na)%nat)) episodes ->
  let '(q, n) := mc_run q0 (zeros2 ns na) episodes gamma in
  let L := all_returns episodes gamma in
  forall s a, (s < ns)%nat -> (a < na)%nat ->
    tget n s a = INR (cnt L s a) /\
    ((0 < cnt L s a)%nat -> tget q s a = sumr L s a / INR (cnt L s a)).
Proof. exact mc_running_mean. Qed.
Print Assumptions C14_mc_running_mean.

Theorem C14_dyna_q_update : forall ns na (t : table), wf ns na t ->
  forall s a s' r gamma lr, (s < ns)%nat -> (a < na)%nat -> forall s1 a1,
  tget (dyna_q_update t s a r s' gamma lr) s1 a1 =
  if Nat.eqb s s1 && Nat.eqb a a1
  then tget t s a + lr * (r + gamma * tget t s' (greedy t s') - tget t s a)
  else tget t s1 a1.
Proof. exact dyna_q_update_spec. Qed.
Print Assumptions C14_dyna_q_update.

(** Dyna-Q model: for every history of observed transitions (stochastic successors
    included) each visited (s,a) row equals the empirical successor frequencies. *)
Theorem C14_dyna_model_empirical : forall ns na hist,
  Forall (fun tr => let '(s, a, _, s') := tr in (s < ns)%nat /\ (a < na)%nat /\ (s' < ns)%nat) hist ->
  TInv ns na (fold_left dyna_obs hist (dyna_init ns na)).
Proof. exact dyna_model_empirical. Qed.
Print Assumptions C14_dyna_model_empirical.

Theorem C14_dyna_counter_exact : forall ns na (d : dyna (F := R)) s a r s' s1 a1 s1',
  cwf ns na (d_count d) -> (s < ns)%nat -> (a < na)%nat -> (s' < ns)%nat ->
  nth s1' (crow (d_count (counter_update d s a r s')) s1 a1) 0%nat =
  ((if Nat.eqb s s1 && Nat.eqb a a1 && Nat.eqb s' s1' then 1 else 0) + nth s1' (crow (d_count d) s1 a1) 0)%nat.
Proof. exact counter_update_exact. Qed.
Print Assumptions C14_dyna_counter_exact.
