(** C05 - each update routine changes only the component it trains (frame rule; partial:
    the write-set per routine is a table taken from the documentation, what Flax really
    writes is observed by the correspondence check). *)
From Coq Require Import List Arith Bool.
From RLV Require Import Model.Frame Proofs.FrameProofs.
Import ListNotations.

(** leaves outside the trained component and its optimizer state are unchanged *)
Theorem C05_frame_partial : forall V (r : routine) (orc : leaf -> V) (h : heap V) l,
  ~ In l (write_set r) -> apply V r orc h l = h l.
Proof. exact apply_frame. Qed.
Print Assumptions C05_frame_partial.

(** an object sharing no leaf with the write-set reads back identically on every path *)
Theorem C05_frame_objects_partial : forall V (r : routine) (orc : leaf -> V) (h : heap V) (o : obj),
  (forall p l, In (p, l) o -> ~ In l (write_set r)) -> read V (apply V r orc h) o = read V h o.
Proof. exact apply_frame_obj. Qed.
Print Assumptions C05_frame_objects_partial.

(** an object sharing no storage with the object that holds the trained component and optimizer state is unchanged *)
Theorem C05_disjoint_object_unchanged_partial : forall V (r : routine) (orc : leaf -> V) (h : heap V) (o ot : obj),
  (forall l, In l (write_set r) -> In l (map snd ot)) -> shares o ot = false ->
  read V (apply V r orc h) o = read V h o.
Proof. exact disjoint_object_unchanged. Qed.
Print Assumptions C05_disjoint_object_unchanged_partial.

(** evaluating a loss / acting (empty write-set) changes nothing *)
Theorem C05_evaluation_is_pure : forall V (r : routine) (orc : leaf -> V) (h : heap V),
  write_set r = [] -> forall l, apply V r orc h l = h l.
Proof. exact eval_pure. Qed.
Print Assumptions C05_evaluation_is_pure.

(** any sequence of updates leaves a leaf outside all their write-sets unchanged *)
Theorem C05_sequence_frame_partial : forall V (rs : list (routine * (leaf -> V))) (h : heap V) l,
  (forall r orc, In (r, orc) rs -> ~ In l (write_set r)) -> apply_all V rs h l = h l.
Proof. exact apply_all_frame. Qed.
Print Assumptions C05_sequence_frame_partial.

(** the changed paths of every object are explained by the write-set: the executable check is silent on the model *)
Theorem C05_check_silent_on_model : forall V (eqb : V -> V -> bool), (forall v, eqb v v = true) ->
  forall (r : routine) (orc : leaf -> V) (h : heap V) (o : obj),
  frame_violations (write_set r) o (changed_paths V eqb h (apply V r orc h) o) = [].
Proof. exact frame_violations_nil. Qed.
Print Assumptions C05_check_silent_on_model.

(** the executable check is empty exactly when every changed path is explained *)
Theorem C05_check_spec : forall i ws objs changed, length objs = length changed ->
  (frame_check_from i ws objs changed = [] <->
   (forall k o c, nth_error objs k = Some o -> nth_error changed k = Some c -> forall p, In p c -> In p (may_change ws o))).
Proof. exact frame_check_from_spec. Qed.
Print Assumptions C05_check_spec.

(** an update whose new value differs does change the trained component *)
Theorem C05_trained_component_changes : forall V (eqb : V -> V -> bool), (forall a b, eqb a b = true -> a = b) ->
  forall (r : routine) (orc : leaf -> V) (h : heap V) (o : obj) p l,
  In (p, l) o -> In l (trained r) -> orc l <> h l -> In p (changed_paths V eqb h (apply V r orc h) o).
Proof. exact trained_changes. Qed.
Print Assumptions C05_trained_component_changes.

(** with a shared leaf the frame rule fails: disjointness is necessary *)
Theorem C05_alias_refuted :
  exists (r : routine) (orc : leaf -> nat) (h : heap nat) (o : obj),
    (exists p l, In (p, l) o /\ In l (write_set r)) /\ read nat (apply nat r orc h) o <> read nat h o.
Proof. exact alias_refuted. Qed.
Print Assumptions C05_alias_refuted.
