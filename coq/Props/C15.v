(** C15 — deferred training releases exactly the collected steps; checkpoints only improve.
    Only property theorems, each closed by [exact]. *)
From Coq Require Import ZArith QArith List Bool.
From RLV Require Import Model.Checkpointing Proofs.CheckpointProofs.
Import ListNotations.
Local Close Scope Q_scope.
Local Open Scope Z_scope.

(** Per call, for every history of (length >= 1, return) pairs, every window size,
    threshold and reset weight: released steps are 0 or exactly the steps of the window;
    a checkpoint happens only on a complete window whose every return is >= the best
    minimum; an assessment is cut short exactly when the window minimum falls below it.
    Together with the totals: released + waiting = collected, and the epoch counter
    advances by exactly the released steps. *)
Theorem C15_run_spec : forall k hist s epoch win,
  WInv s win -> Forall (fun lr => 0 < fst lr) hist ->
  let '(outs, sf, ef) := td7_run k s epoch hist in
  Forall2 (call_spec k) outs (td7_ghost k s epoch win hist) /\
  sumz (map snd outs) + c_ts sf = c_ts s + sumz (map fst hist) /\
  ef = epoch + sumz (map snd outs).
Proof. exact td7_run_spec. Qed.
Print Assumptions C15_run_spec.

Theorem C15_conservation : forall k hist,
  Forall (fun lr => 0 < fst lr) hist ->
  let '(outs, sf, ef) := td7_run k cstate_init 0 hist in
  sumz (map snd outs) + c_ts sf = sumz (map fst hist) /\ ef = sumz (map snd outs).
Proof. exact conservation. Qed.
Print Assumptions C15_conservation.

Theorem C15_release_resets : forall k s steps ret epoch,
  let '(s', u, tr) := assess k s steps ret epoch in
  0 < tr -> c_eps s' = 0 /\ c_ts s' = 0 /\ c_minret s' = big.
Proof. exact release_resets. Qed.
Print Assumptions C15_release_resets.

Theorem C15_window_size_changes_only_at_switch : forall k s steps ret epoch,
  0 <= c_ts s -> 0 < steps ->
  let '(s', u, tr) := assess k s steps ret epoch in
  0 <= tr /\ 0 <= c_ts s' /\
  c_maxeps s' = (if switches_at k s steps ret epoch then k_maxeps k else c_maxeps s) /\
  (tr = 0 \/ tr = c_ts s + steps).
Proof. exact assess_maxeps. Qed.
Print Assumptions C15_window_size_changes_only_at_switch.

Theorem C15_switch_once : forall k hist s epoch,
  0 <= c_ts s -> Forall (fun lr => 0 < fst lr) hist ->
  (switch_count k s epoch hist <= 1)%nat.
Proof. exact switch_once. Qed.
Print Assumptions C15_switch_once.
