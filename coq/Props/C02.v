(** C02 — replay buffer is a faithful fixed-capacity FIFO of whole transitions.
    Only property theorems, each closed by [exact]. *)
From Coq Require Import ZArith List Arith.
From RLV Require Import Model.Buffers Proofs.RingProofs Proofs.MultiProofs.
Import ListNotations.

(** After any history h of additions into a buffer of capacity N >= 1 the reported
    length is min(|h|, N) ... *)
Theorem C02_length : forall (A : Type) N (h : list A), 1 <= N ->
  len (rb_run N h) = Nat.min (length h) N.
Proof. exact @rb_len. Qed.
Print Assumptions C02_length.

(** ... and the slots, read in write order, are exactly the most recent min(|h|,N)
    additions, unmodified. *)
Theorem C02_contents : forall (A : Type) N (h : list A), 1 <= N ->
  let b := rb_run N h in
  map (fun c => nth (c mod N) (slots b) None) (seq (length h - len b) (len b))
  = map Some (lastn (len b) h).
Proof. exact @rb_contents. Qed.
Print Assumptions C02_contents.

(** Every row of a sampled batch (draws inside the requested range [0, len)) is one
    of those stored transitions. *)
Theorem C02_sample_sound : forall (A : Type) N (h : list A) idxs, 1 <= N ->
  let b := rb_run N h in
  Forall (fun i => i < rb_draw_range b) idxs ->
  Forall (fun r => exists x, r = Some x /\ In x (lastn (Nat.min (length h) N) h)) (rb_sample b idxs).
Proof. exact @rb_sample_sound. Qed.
Print Assumptions C02_sample_sound.

(** Slots that were never written lie at or above the reported length, i.e. outside
    the range the buffer draws from. *)
Theorem C02_unwritten_outside_range : forall (A : Type) N (h : list A) i, 1 <= N ->
  len (rb_run N h) <= i -> nth i (slots (rb_run N h)) None = None.
Proof. exact @rb_unwritten. Qed.
Print Assumptions C02_unwritten_outside_range.

(** Multi-task buffer: an addition changes only the selected task's buffer. *)
Theorem C02_mt_isolation : forall (B X : Type) (badd : B -> X -> B) (m : mt B) x t,
  t <> selected m -> nth_error (bufs (mt_add badd m x)) t = nth_error (bufs m) t.
Proof. exact @mt_add_isolation. Qed.
Print Assumptions C02_mt_isolation.

Theorem C02_mt_select_valid : forall (B : Type) (m : mt B) t,
  (mt_select m t = None <-> (t < 0 \/ Z.of_nat (length (bufs m)) <= t)%Z) /\
  (forall m', mt_select m t = Some m' ->
     bufs m' = bufs m /\ active m' = active m /\ selected m' = Z.to_nat t /\ selected m' < length (bufs m)).
Proof. exact @mt_select_spec. Qed.
Print Assumptions C02_mt_select_valid.

(** For every history of select / add / sample operations, each task's buffer is the
    fold of exactly the additions made while that task was selected, and the set of
    tasks a batch may come from is exactly the set of tasks that already have data. *)
Theorem C02_mt_histories : forall (B X : Type) (badd : B -> X -> B) (b0 : B) n ops, 1 <= n ->
  let st := fold_left (gstep badd) ops (mt_init b0 n, repeat [] n) in
  MInv badd b0 (fst st) (snd st).
Proof. exact @minv_run. Qed.
Print Assumptions C02_mt_histories.

Theorem C02_mt_sample_single_task_with_data :
  forall (B X : Type) (badd : B -> X -> B) (b0 : B) (m : mt B) hs pos t,
  MInv badd b0 m hs -> snd (mt_choose m pos) = Some t ->
  exists h, nth_error hs t = Some h /\ h <> [] /\
            nth_error (bufs (fst (mt_choose m pos))) t = Some (fold_left badd h b0).
Proof. exact @mt_choose_active. Qed.
Print Assumptions C02_mt_sample_single_task_with_data.
