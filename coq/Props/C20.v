(** C20 — loggers record faithfully; checkpoints exactly at interval crossings.
    This file contains only the property theorems, each closed by [exact]. *)
From Coq Require Import ZArith List.
From RLV Require Import Model.Logger Proofs.LoggerProofs.
Import ListNotations.
Open Scope Z_scope.

(** Every statistic is retrievable in recording order with the episode/step it
    was recorded under (explicit or the logger's current counters). *)
Theorem C20_get_stat_order : forall std ops key,
  get_stat (mrun std ops) key = spec_get_stat (srun ops) key.
Proof. exact get_stat_refines. Qed.
Print Assumptions C20_get_stat_order.

Theorem C20_counters_exact : forall std ops,
  m_episodes (mrun std ops) = count_start ops /\ m_steps (mrun std ops) = sum_stop ops.
Proof. exact counters_exact. Qed.
Print Assumptions C20_counters_exact.

Theorem C20_fanout_equal : forall kinds ops,
  list_run kinds ops = map (fun k => mrun k ops) kinds.
Proof. exact fanout_equal. Qed.
Print Assumptions C20_fanout_equal.

Theorem C20_cadence_floor : forall f last step, 0 < f -> 0 <= last <= step ->
  due f last step = (last / f <? step / f).
Proof. exact due_spec. Qed.
Print Assumptions C20_cadence_floor.

Theorem C20_one_checkpoint_per_crossing : forall key f steps,
  0 < f -> nondecreasing_from 0 steps ->
  c_saved (crun (LDefFreq key f :: map (fun st => LEpoch key None (Some st)) steps)) =
  saved_of key 0 steps (crossings f 0 steps).
Proof. exact one_checkpoint_per_crossing. Qed.
Print Assumptions C20_one_checkpoint_per_crossing.

Theorem C20_standard_every_kth : forall key f eps,
  m_ckpt (mrun true (LDefFreq key f :: map (fun e => LEpoch key (fst e) (snd e)) eps)) =
  every_kth key f 0 (length eps).
Proof. exact standard_every_kth. Qed.
Print Assumptions C20_standard_every_kth.
