(** C07 — return and advantage estimates obey their recurrences and are causal.
    Only property theorems, each closed by [exact]. (The MR.Q critic target and the
    encoder loss masks, which C07 also names, are stated with the losses in C03.) *)
From Coq Require Import Reals List Bool Arith.
From RLV Require Import Model.Num Model.Returns Proofs.ReturnsProofs.
Import ListNotations.
Local Open Scope R_scope.

Theorem C07_rtg_rec : forall (rs : list R) g t, (t < length rs)%nat ->
  nth t (reward_to_go rs g) 0 = nth t rs 0 + g * nth (S t) (reward_to_go rs g) 0.
Proof. exact rtg_rec. Qed.
Print Assumptions C07_rtg_rec.

Theorem C07_rtg_causal : forall (pre1 pre2 rest : list R) g, length pre1 = length pre2 ->
  skipn (length pre1) (reward_to_go (pre1 ++ rest) g) = reward_to_go rest g /\
  skipn (length pre2) (reward_to_go (pre2 ++ rest) g) = reward_to_go rest g.
Proof. exact rtg_causal. Qed.
Print Assumptions C07_rtg_causal.

Theorem C07_gae_rec : forall (steps : list gstep) g l t, (t < length steps)%nat ->
  let '(r, v, nv, d) := nth t steps (0, 0, 0, 0) in
  nth t (gae_adv steps g l) 0 = (r + g * nv * (1 - d) - v) + g * l * (1 - d) * nth (S t) (gae_adv steps g l) 0.
Proof. exact gae_rec. Qed.
Print Assumptions C07_gae_rec.

(** depends only on the trajectory's data from t up to its first termination *)
Theorem C07_gae_causal : forall (pre1 pre2 mid post1 post2 : list gstep) g l,
  length pre1 = length pre2 -> mid <> [] -> terminated_step (last mid (0, 0, 0, 0)) ->
  firstn (length mid) (skipn (length pre1) (gae_adv (pre1 ++ mid ++ post1) g l)) =
  firstn (length mid) (skipn (length pre2) (gae_adv (pre2 ++ mid ++ post2) g l)).
Proof. exact gae_causal. Qed.
Print Assumptions C07_gae_causal.

Theorem C07_gae_past_independent : forall (pre1 pre2 rest : list gstep) g l, length pre1 = length pre2 ->
  skipn (length pre1) (gae_adv (pre1 ++ rest) g l) = skipn (length pre2) (gae_adv (pre2 ++ rest) g l).
Proof. exact gae_past_independent. Qed.
Print Assumptions C07_gae_past_independent.

Theorem C07_nstep_rec : forall (rewards terms : list R) g,
  n_step_return rewards terms g = nstep_spec (combine rewards terms) g.
Proof. exact nstep_rec. Qed.
Print Assumptions C07_nstep_rec.

Theorem C07_nstep_discount : forall (rd : list (R * R)) g,
  snd (nstep_spec rd g) = g ^ length rd * fold_right Rmult 1 (map (fun x => 1 - snd x) rd).
Proof. exact nstep_discount. Qed.
Print Assumptions C07_nstep_discount.

Theorem C07_nstep_causal : forall (pre post1 post2 : list (R * R)) r g,
  nstep_spec (pre ++ (r, 1) :: post1) g = nstep_spec (pre ++ (r, 1) :: post2) g /\
  snd (nstep_spec (pre ++ (r, 1) :: post1) g) = 0.
Proof. exact nstep_causal. Qed.
Print Assumptions C07_nstep_causal.

Theorem C07_a2c_entry : forall nenv (Rw V D : list (list R)) boot g l t j,
  (t < length Rw)%nat -> (j < nenv)%nat ->
  nth j (nth t (fst (a2c_batch nenv Rw V D boot g l)) []) 0 = nth t (fst (a2c_col j Rw V D boot g l)) 0 /\
  nth j (nth t (snd (a2c_batch nenv Rw V D boot g l)) []) 0 = nth t (snd (a2c_col j Rw V D boot g l)) 0.
Proof. exact a2c_entry. Qed.
Print Assumptions C07_a2c_entry.

Theorem C07_a2c_env_independent : forall j (R1 V1 D1 R2 V2 D2 : list (list R)) boot1 boot2 g l,
  column j R1 = column j R2 -> column j V1 = column j V2 -> column j D1 = column j D2 ->
  nth j boot1 0 = nth j boot2 0 ->
  a2c_col j R1 V1 D1 boot1 g l = a2c_col j R2 V2 D2 boot2 g l.
Proof. exact a2c_env_independent. Qed.
Print Assumptions C07_a2c_env_independent.

(** PPO's batched preparation: the flat output's segment for environment j is the GAE of
    column j alone, hence independent of every other environment. *)
Theorem C07_ppo_env_segment : forall (pre : list (list gstep)) (c : list gstep) (post : list (list gstep)) g l,
  firstn (length c) (skipn (length (concat pre)) (ppo_gae (pre ++ c :: post) g l)) = gae_adv c g l.
Proof. exact ppo_env_segment. Qed.
Print Assumptions C07_ppo_env_segment.

Theorem C07_ppo_env_independent : forall (pre1 pre2 : list (list gstep)) c (post1 post2 : list (list gstep)) g l,
  firstn (length c) (skipn (length (concat pre1)) (ppo_gae (pre1 ++ c :: post1) g l)) =
  firstn (length c) (skipn (length (concat pre2)) (ppo_gae (pre2 ++ c :: post2) g l)).
Proof. exact ppo_env_independent. Qed.
Print Assumptions C07_ppo_env_independent.

(** Why the per-environment form is needed: ONE GAE over the flattened rollout (the form
    used before the repair recorded in known_findings.json) is refuted ... *)
Theorem C07_flat_gae_env_independent_refuted : exists (c0 c1 c1' : list gstep) g l,
  firstn (length c0) (ppo_flat_gae [c0; c1] g l) <> firstn (length c0) (ppo_flat_gae [c0; c1'] g l).
Proof. exact ppo_flat_env_independent_refuted. Qed.
Print Assumptions C07_flat_gae_env_independent_refuted.

(** ... and is only correct when every environment's last rollout step is terminated. *)
Theorem C07_flat_gae_env_independent_partial : forall (c0 : list gstep) (rest1 rest2 : list (list gstep)) g l,
  c0 <> [] -> terminated_step (last c0 (0, 0, 0, 0)) ->
  firstn (length c0) (ppo_flat_gae (c0 :: rest1) g l) = firstn (length c0) (ppo_flat_gae (c0 :: rest2) g l).
Proof. exact ppo_flat_env_independent_partial. Qed.
Print Assumptions C07_flat_gae_env_independent_partial.

(** The learning signal computed from a sampled sub-trajectory by the MR.Q encoder loss (masked model rollout): everything
    after the first terminated step is ignored - for every prefix, every later data and every weight in force; the variant
    with a non-cumulative mask (the seeded changes C03/m1, C07/r2m1) is refuted *)
Theorem C07_rollout_ignores_post_terminal : forall (pre post post' : list (R * R)) (l m : R),
  masked_rollout m (pre ++ (l, 0) :: post) = masked_rollout m (pre ++ (l, 0) :: post').
Proof. exact rollout_ignores_post_terminal. Qed.
Print Assumptions C07_rollout_ignores_post_terminal.
Theorem C07_rollout_noncumulative_mask_refuted : exists (pre post post' : list (R * R)) (l : R),
  rollout_noncum 1 (pre ++ (l, 0) :: post) <> rollout_noncum 1 (pre ++ (l, 0) :: post').
Proof. exact rollout_noncum_refuted. Qed.
Print Assumptions C07_rollout_noncumulative_mask_refuted.
