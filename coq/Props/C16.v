(** C16 — black-box optimisers (CMA-ES, cross-entropy method) keep their distribution and
    bookkeeping invariants. Only property theorems, each closed by [exact].
    Models: Model/BlackBox.v (rl_blox/algorithm/cmaes.py, rl_blox/blox/cross_entropy_method.py).
    Fitness values are extended reals [xval R] = NaN | -inf | +inf | finite, compared as IEEE
    floats compare ([xleb], NaN never <= anything); [xisnan] recognises NaN. *)
From Coq Require Import Reals List Bool Arith Permutation Sorted.
From RLV Require Import Model.Num Model.Buffers Model.BlackBox Proofs.BlackBoxProofs.
Import ListNotations.
Local Open Scope R_scope.

(** Recombination weights ln(lambda/2 + 1/2) - ln(i + 1), i < mu = floor(lambda / 2), divided
    by their sum: positive, strictly decreasing (hence non-increasing), sum to one — for
    every population size lambda >= 2. *)
Theorem C16_weights_pos_decreasing_sum1 : forall lam : nat, (2 <= lam)%nat ->
  let w := cma_weights (F := R) lam in
  length w = (lam / 2)%nat /\ (1 <= length w)%nat /\
  Forall (fun x => 0 < x) w /\
  (forall i j, (i < j)%nat -> (j < length w)%nat -> nth j w 0 < nth i w 0) /\
  nsum w = 1.
Proof. exact weights_pos_decreasing_sum1. Qed.
Print Assumptions C16_weights_pos_decreasing_sum1.

(** The learning rates computed by CMAESConfig.create are admissible for every dimension
    n >= 1 and population size lambda >= 2 ([cfg_ok], spelled out by the next theorem). *)
Theorem C16_config_rates_admissible : forall n lam : nat, (1 <= n)%nat -> (2 <= lam)%nat ->
  cfg_ok (cma_config n lam).
Proof. exact cma_config_ok. Qed.
Print Assumptions C16_config_rates_admissible.

Theorem C16_cfg_ok_spelled : forall cfg : cma_cfg (F := R),
  cfg_ok cfg <->
  ((1 <= c_mu cfg)%nat /\ length (c_w cfg) = c_mu cfg /\ Forall (fun x => 0 < x) (c_w cfg) /\
   nsum (c_w cfg) = 1 /\ 0 < c_c1 cfg /\ 0 < c_cmu cfg /\ c_c1 cfg + c_cmu cfg < 1 /\
   0 < c_cc cfg <= 1 /\ 0 < c_negcmu cfg /\ c_alpha cfg = 1 / 2).
Proof. exact cfg_ok_spelled. Qed.
Print Assumptions C16_cfg_ok_spelled.

(** Incumbent bookkeeping, for EVERY sequence of evaluations [evs] (each with the population
    current at that time and an arbitrary feedback: ties, +-inf, NaN), both for minimisation
    and maximisation, starting from CMAESState.create. With f_t the fitness of evaluation t
    ([fitness_of]) and x_t the candidate handed out for it ([candidate_of] = samples[t mod lambda]):
    the iteration counter is the number of evaluations; best_fitness is never NaN and is <=
    every non-NaN f_t; and either nothing comparable was evaluated and the report is
    (+inf, iteration 0, initial mean), or there is an evaluation t with best_fitness = f_t,
    best_fitness_it = t, best_params = x_t, and every later evaluation is strictly worse or NaN
    (so on ties the latest candidate is reported). *)
Theorem C16_incumbent_is_best_so_far :
  forall (lam : nat) (maximize : bool) (mean : list R) (variance : R) (cov invsqrt : list (list R))
         (evs : list (list (list R) * list (xval R))),
  let st := fold_left (fb_step lam maximize) evs (cma_init mean variance cov invsqrt) in
  let f := fun t => fitness_of maximize (nth t evs ([], [])) in
  s_it st = length evs /\
  xisnan (s_best st) = false /\
  (forall t, (t < length evs)%nat -> xisnan (f t) = false -> xleb (s_best st) (f t) = true) /\
  ((s_best st = XPosInf /\ s_best_it st = 0%nat /\ s_best_params st = mean /\
    forall t, (t < length evs)%nat -> xisnan (f t) = true)
   \/
   (exists t, (t < length evs)%nat /\
      s_best st = f t /\ s_best_it st = t /\
      s_best_params st = candidate_of lam t (nth t evs ([], [])) /\
      forall t', (t < t')%nat -> (t' < length evs)%nat -> xleb (f t') (s_best st) = false)).
Proof. exact incumbent_is_best_so_far. Qed.
Print Assumptions C16_incumbent_is_best_so_far.

(** [fb_step] is set_evaluation_feedback; it leaves the search distribution alone. *)
Theorem C16_feedback_frame :
  forall lam maximize (st : cma_state (F := R)) samples popfit fb,
  let st' := fst (set_feedback lam maximize st samples popfit fb) in
  s_mean st' = s_mean st /\ s_var st' = s_var st /\ s_cov st' = s_cov st /\
  s_pc st' = s_pc st /\ s_ps st' = s_ps st /\ s_it st' = S (s_it st).
Proof. exact set_feedback_frame. Qed.
Print Assumptions C16_feedback_frame.

(** Mean recombination, for every configuration, state, population and fitness vector
    (ties, +-inf, NaN), active or not: with r = argsort(fitness), r is a permutation of the
    population indices, sorted by fitness with NaN last and ties in index order; no candidate
    outside the first mu of r is strictly better than one inside; the new mean has n
    coordinates, mean'_j = sum_{i < mu} w_i * samples[r_i]_j; the old mean becomes last_mean;
    and with admissible weights every coordinate of the new mean lies between the bounds of
    the selected candidates' coordinates (convex combination). *)
Theorem C16_mean_is_weighted_elite_avg :
  forall (cfg : cma_cfg (F := R)) (active : bool) (st : cma_state (F := R))
         (samples : list (list R)) (fitness : list (xval R)),
  (c_mu cfg <= length fitness)%nat ->
  let r := argsort fitness in
  let st' := cma_update cfg active st samples fitness in
  let before := fun i j =>
    xsort_lt (fit_at fitness i) (fit_at fitness j) = true \/
    (xsort_lt (fit_at fitness j) (fit_at fitness i) = false /\ (i < j)%nat) in
  Permutation (seq 0 (length fitness)) r /\ StronglySorted before r /\
  (forall p q, (p < c_mu cfg)%nat -> (c_mu cfg <= q)%nat -> (q < length fitness)%nat ->
     xsort_lt (fit_at fitness (nth q r 0%nat)) (fit_at fitness (nth p r 0%nat)) = false) /\
  length (s_mean st') = c_n cfg /\ s_last_mean st' = s_mean st /\
  (forall j, (j < c_n cfg)%nat ->
     nth j (s_mean st') 0 =
     sumn (c_mu cfg) (fun i => nth i (c_w cfg) 0 * nth j (nth (nth i r 0%nat) samples []) 0)) /\
  (cfg_ok cfg -> forall j lo hi, (j < c_n cfg)%nat ->
     (forall i, (i < c_mu cfg)%nat -> lo <= nth j (nth (nth i r 0%nat) samples []) 0 <= hi) ->
     lo <= nth j (s_mean st') 0 <= hi).
Proof. exact mean_is_weighted_elite_avg. Qed.
Print Assumptions C16_mean_is_weighted_elite_avg.

(** On comparable values "not strictly before" is plain <=. *)
Theorem C16_sort_order_meaning : forall a b : xval R, xisnan a = false -> xisnan b = false ->
  (xsort_lt b a = false <-> xleb a b = true).
Proof. exact xsort_lt_false. Qed.
Print Assumptions C16_sort_order_meaning.

(** Step size: var' = var * exp(min(0.6, .))^2, so sigma = sqrt(var) grows by at most the
    documented factor exp(0.6) per update, whatever the evolution path, and stays positive. *)
Theorem C16_sigma_growth_bounded :
  forall (cfg : cma_cfg (F := R)) (active : bool) (st : cma_state (F := R))
         (samples : list (list R)) (fitness : list (xval R)),
  0 <= s_var st ->
  let st' := cma_update cfg active st samples fitness in
  sqrt (s_var st') <= sqrt (s_var st) * exp (6 / 10) /\
  s_var st' <= s_var st * (exp (6 / 10) * exp (6 / 10)) /\
  (0 < s_var st -> 0 < s_var st').
Proof. exact sigma_growth_bounded. Qed.
Print Assumptions C16_sigma_growth_bounded.

(** Covariance, both variants: the updated matrix is n x n and symmetric whenever the old
    one is symmetric. *)
Theorem C16_cov_symmetric :
  forall (cfg : cma_cfg (F := R)) (active : bool) (st : cma_state (F := R))
         (samples : list (list R)) (fitness : list (xval R)),
  (forall j k, (j < c_n cfg)%nat -> (k < c_n cfg)%nat -> mget (s_cov st) j k = mget (s_cov st) k j) ->
  let C' := s_cov (cma_update cfg active st samples fitness) in
  (length C' = c_n cfg /\ Forall (fun row => length row = c_n cfg) C') /\
  (forall j k, (j < c_n cfg)%nat -> (k < c_n cfg)%nat -> mget C' j k = mget C' k j).
Proof. exact cov_symmetric. Qed.
Print Assumptions C16_cov_symmetric.

(** Default covariance update: every variance (diagonal entry) stays positive, for every
    population and fitness vector and every admissible configuration. *)
Theorem C16_cov_diag_positive_default :
  forall (cfg : cma_cfg (F := R)) (st : cma_state (F := R)) (samples : list (list R)) (fitness : list (xval R)),
  cfg_ok cfg -> forall j, (j < c_n cfg)%nat -> 0 < mget (s_cov st) j j ->
  0 < mget (s_cov (cma_update cfg false st samples fitness)) j j.
Proof. exact cov_diag_positive_default. Qed.
Print Assumptions C16_cov_diag_positive_default.

(** Active covariance update — PARTIAL: positivity of the variances is shown only under a
    bound on the negative rank-mu term of the mu worst candidates,
        sum_i w_i z_ij^2 <= K * C_jj   and   neg_cmu * K <= 1 - c1 - cmu,
    which the code does not establish (candidates are unbounded Gaussian draws). *)
Theorem C16_cov_diag_positive_active_partial :
  forall (cfg : cma_cfg (F := R)) (st : cma_state (F := R)) (samples : list (list R)) (fitness : list (xval R)) (K : R),
  cfg_ok cfg -> forall j, (j < c_n cfg)%nat -> 0 < mget (s_cov st) j j ->
  rank_mu (c_mu cfg) (c_w cfg)
          (normalise (c_n cfg) (select samples (firstn (c_mu cfg) (rev (argsort fitness))))
                     (s_mean st) (sqrt (s_var st))) j j <= K * mget (s_cov st) j j ->
  c_negcmu cfg * K <= 1 - c_c1 cfg - c_cmu cfg ->
  0 < mget (s_cov (cma_update cfg true st samples fitness)) j j.
Proof. exact cov_diag_positive_active_partial. Qed.
Print Assumptions C16_cov_diag_positive_active_partial.

(** ... and the bound is needed: the active update writes C_jj * a1 + pc_j^2 * c1 + rm * b - nrm * g,
    which is negative for admissible rates when the worst candidate is far out. *)
Theorem C16_active_entry_is_the_update :
  forall (cfg : cma_cfg (F := R)) (st : cma_state (F := R)) (samples : list (list R)) (fitness : list (xval R)) (j : nat),
  (j < c_n cfg)%nat ->
  exists hs pcj, (hs = 0 \/ hs = 1) /\
  mget (s_cov (cma_update cfg true st samples fitness)) j j =
  mget (s_cov st) j j
    * (1 - c_c1 cfg * (1 - (1 - hs) * c_cc cfg * (2 - c_cc cfg)) - c_cmu cfg + c_negcmu cfg * c_alpha cfg)
  + pcj * pcj * c_c1 cfg
  + rank_mu (c_mu cfg) (c_w cfg)
       (normalise (c_n cfg) (select samples (firstn (c_mu cfg) (argsort fitness))) (s_mean st) (sqrt (s_var st))) j j
    * (c_cmu cfg + c_negcmu cfg * (1 - c_alpha cfg))
  - rank_mu (c_mu cfg) (c_w cfg)
       (normalise (c_n cfg) (select samples (firstn (c_mu cfg) (rev (argsort fitness)))) (s_mean st) (sqrt (s_var st))) j j
    * c_negcmu cfg.
Proof. exact active_entry_is_the_update. Qed.
Print Assumptions C16_active_entry_is_the_update.

Theorem C16_active_entry_can_be_negative :
  let c1 := 1 / 4 in let cmu := 1 / 4 in let g := 1 / 8 in let al := 1 / 2 in
  0 < c1 /\ 0 < cmu /\ c1 + cmu < 1 /\ 0 < g /\
  1 * (1 - c1 - cmu + g * al) + 0 * c1 + 0 * (cmu + g * (1 - al)) - 100 * g < 0.
Proof. exact active_entry_can_be_negative. Qed.
Print Assumptions C16_active_entry_can_be_negative.

(** flat_params after set_params is the identity on every flat vector of the right length,
    for every list of leaf shapes (= every architecture). *)
Theorem C16_flat_after_set_is_identity : forall (A : Type) (shapes : list (list nat)) (params : list A),
  length params = fold_right (fun s acc => (size s + acc)%nat) 0%nat shapes ->
  flat_params (set_params shapes params) = params.
Proof. exact @flat_set_id. Qed.
Print Assumptions C16_flat_after_set_is_identity.

(** set_params after flat_params restores every leaf (shape and contents). *)
Theorem C16_set_after_flat_is_identity : forall (A : Type) (leaves : list (list nat * list A)),
  Forall (fun l => length (snd l) = size (fst l)) leaves ->
  set_params (map fst leaves) (flat_params leaves) = leaves.
Proof. exact @set_flat_id. Qed.
Print Assumptions C16_set_after_flat_is_identity.

(** CEM sampling: for a mean inside the box, non-negative variances and truncated-normal
    draws |z| <= 2, every proposed candidate lies inside the box. *)
Theorem C16_cem_sample_within : forall (zs : list (list R)) (mean var lb ub : list R),
  (forall j, (j < length mean)%nat ->
     nth j lb 0 <= nth j mean 0 <= nth j ub 0 /\ 0 <= nth j var 0) ->
  (forall z, In z zs -> forall j, (j < length mean)%nat -> -2 <= nth j z 0 <= 2) ->
  forall x, In x (cem_sample zs mean var lb ub) ->
    length x = length mean /\
    forall j, (j < length mean)%nat -> nth j lb 0 <= nth j x 0 <= nth j ub 0.
Proof. exact cem_sample_within. Qed.
Print Assumptions C16_cem_sample_within.

(** CEM elites: lax.top_k returns exactly n_elite distinct candidates, sorted by decreasing
    fitness (ties in index order), and no unselected candidate is strictly better than a
    selected one; on comparable fitness values: fitness_j <= fitness_i. *)
Theorem C16_cem_elites_are_top_k : forall (fit : list (xval R)) (k : nat), (k <= length fit)%nat ->
  let t := top_k fit k in
  let before := fun i j =>
    xtop_lt (fit_at fit i) (fit_at fit j) = true \/
    (xtop_lt (fit_at fit j) (fit_at fit i) = false /\ (i < j)%nat) in
  length t = k /\ NoDup t /\ Forall (fun i => (i < length fit)%nat) t /\
  StronglySorted before t /\
  (forall i j, In i t -> (j < length fit)%nat -> ~ In j t ->
     xtop_lt (fit_at fit j) (fit_at fit i) = false).
Proof. exact elites_are_top_k. Qed.
Print Assumptions C16_cem_elites_are_top_k.

Theorem C16_cem_elites_dominate : forall (fit : list (xval R)) (k : nat), (k <= length fit)%nat ->
  Forall (fun f => xisnan f = false) fit ->
  forall i j, In i (top_k fit k) -> (j < length fit)%nat -> ~ In j (top_k fit k) ->
    xleb (fit_at fit j) (fit_at fit i) = true.
Proof. exact elites_dominate. Qed.
Print Assumptions C16_cem_elites_dominate.

(** CEM update: the new mean is alpha * mean + (1 - alpha) * (arithmetic mean of exactly the
    n_elite selected candidates), and stays inside the box when the candidates and the old
    mean are inside and 0 <= alpha <= 1. *)
Theorem C16_cem_mean_within :
  forall (samples : list (list R)) (fitness : list (xval R)) (mean var : list R) (n_elite : nat)
         (alpha : R) (lb ub : list R),
  (1 <= n_elite)%nat -> (n_elite <= length fitness)%nat -> length samples = length fitness ->
  0 <= alpha <= 1 ->
  let top := top_k fitness n_elite in
  let mean' := fst (cem_update samples fitness mean var n_elite alpha) in
  length mean' = length mean /\
  forall j, (j < length mean)%nat ->
    nth j mean' 0 = alpha * nth j mean 0
                    + (1 - alpha) * (nsum (map (fun i => nth j (nth i samples []) 0) top) / INR n_elite) /\
    ((forall x, In x samples -> nth j lb 0 <= nth j x 0 <= nth j ub 0) ->
     nth j lb 0 <= nth j mean 0 <= nth j ub 0 ->
     nth j lb 0 <= nth j mean' 0 <= nth j ub 0).
Proof. exact cem_mean_within. Qed.
Print Assumptions C16_cem_mean_within.
