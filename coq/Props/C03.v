(** C03 — critic and representation losses implement their documented targets per sample.
    Only property theorems, each closed by [exact]. Networks enter as the tensors they output
    on the batch ((N,1) columns for continuous critics, (N,A) matrices for Q-networks). *)
From Coq Require Import Reals List Bool Arith Permutation.
From RLV Require Import Model.Num Model.Tensor Model.Blocks Model.Returns Model.Losses Model.Dual
  Proofs.BlocksProofs Proofs.LossesProofs.
Import ListNotations.
Local Open Scope R_scope.

(** DDPG: mean squared error between Q(o,a) and y = r + (1 - terminated) gamma Q'(o', pi'(o')),
    per sample, for every batch size >= 2 ... *)
Theorem C03_ddpg_eq_spec : forall (q qn r d : list R) g, (2 <= length q)%nat ->
  length q = length r -> length r = length d -> length d = length qn ->
  ddpg_loss idR (col q) (col qn) (T1 r) (T1 d) g = Ok (mse_spec q (ys r d qn g), nmean q).
Proof. exact ddpg_eq_spec. Qed.
Print Assumptions C03_ddpg_eq_spec.

(** ... and a loud rejection (shape assertion) for batch size 1. *)
Theorem C03_ddpg_n1_rejects : forall (q qn r d g : R),
  ddpg_loss idR (col [q]) (col [qn]) (T1 [r]) (T1 [d]) g = Err.
Proof. exact ddpg_n1_rejects. Qed.
Print Assumptions C03_ddpg_n1_rejects.

(** TD3 (clipped double-Q), every batch size >= 1 gives the per-sample value. *)
Theorem C03_td3_eq_spec : forall (q1 q2 qn r d : list R) g, (1 <= length r)%nat ->
  length q1 = length r -> length q2 = length r -> length r = length d -> length d = length qn ->
  td3_loss idR (col q1) (col q2) (col qn) (T1 r) (T1 d) g =
  Ok (mse_spec q1 (ys r d qn g) + mse_spec q2 (ys r d qn g), nmean (zipw Rmin q1 q2)).
Proof. exact td3_eq_spec. Qed.
Print Assumptions C03_td3_eq_spec.

(** SAC: the bootstrap carries the entropy term min Q' - alpha log pi. *)
Theorem C03_sac_eq_spec : forall (q1 q2 qn lp r d : list R) alpha g, (2 <= length r)%nat ->
  length q1 = length r -> length q2 = length r -> length r = length d -> length d = length qn ->
  length lp = length qn ->
  sac_loss idR (col q1) (col q2) (col qn) (T1 lp) (T1 r) (T1 d) alpha g =
  let soft := zipw (fun q l => q - alpha * l) qn lp in
  Ok (mse_spec q1 (ys r d soft g) + mse_spec q2 (ys r d soft g), nmean (zipw Rmin q1 q2)).
Proof. exact sac_eq_spec. Qed.
Print Assumptions C03_sac_eq_spec.

(** DQN / Nature-DQN: bootstrap = max_a of the (online resp. target) network at o'. *)
Theorem C03_dqn_eq_spec : forall (q_all next_q : list (list R)) acts (r d : list R) g,
  length q_all = length acts -> length q_all = length r -> length r = length d -> length d = length next_q ->
  dqn_loss idR q_all next_q acts (T1 r) (T1 d) g =
  let qp := gather q_all acts in
  Ok (mse_spec qp (ys r d (row_max next_q) g), nmean qp).
Proof. exact dqn_eq_spec. Qed.
Print Assumptions C03_dqn_eq_spec.

(** Double DQN: the target network's value of the online network's greedy action at o'. *)
Theorem C03_ddqn_eq_spec : forall (q_all nq_on nq_tg : list (list R)) acts (r d : list R) g,
  (2 <= length r)%nat ->
  length q_all = length acts -> length q_all = length r -> length r = length d ->
  length d = length nq_on -> length nq_on = length nq_tg ->
  ddqn_loss idR q_all nq_on nq_tg acts (T1 r) (T1 d) g =
  let qp := gather q_all acts in
  Ok (mse_spec qp (ys r d (gather nq_tg (row_argmax nq_on)) g), nmean qp).
Proof. exact ddqn_eq_spec. Qed.
Print Assumptions C03_ddqn_eq_spec.

(** A transition flagged terminated contributes no bootstrap term whatever its successor is. *)
Theorem C03_terminated_no_bootstrap : forall (r d qn qn' : list R) g,
  length r = length d -> length d = length qn -> length qn = length qn' ->
  (forall i, (i < length d)%nat -> nth i d 0 <> 1 -> nth i qn 0 = nth i qn' 0) ->
  ys r d qn g = ys r d qn' g.
Proof. exact terminated_no_bootstrap. Qed.
Print Assumptions C03_terminated_no_bootstrap.

(** The batch mean is invariant under any permutation of the samples. *)
Theorem C03_batch_order_invariant : forall (A : Type) (f : A -> R) (l l' : list A),
  Permutation l l' -> nmean (map f l) = nmean (map f l').
Proof. exact @batch_mean_perm_invariant. Qed.
Print Assumptions C03_batch_order_invariant.

(** Gradients (dual numbers, stop_gradient = cut the tangent): value AND tangent of the loss
    are the same for any two bootstrap tensors with equal values, whatever their tangents —
    i.e. target networks, target policies and bootstrap inputs receive exactly zero gradient. *)
Theorem C03_td3_grad_target_zero : forall (q1 q2 qt qt' r d : tensor (R * R)) (g : R * R),
  tproj qt = tproj qt' -> td3_loss dual_sg q1 q2 qt r d g = td3_loss dual_sg q1 q2 qt' r d g.
Proof. exact td3_grad_target_zero. Qed.
Print Assumptions C03_td3_grad_target_zero.

Theorem C03_ddpg_grad_target_zero : forall (q qt qt' r d : tensor (R * R)) (g : R * R),
  tproj qt = tproj qt' -> ddpg_loss dual_sg q qt r d g = ddpg_loss dual_sg q qt' r d g.
Proof. exact ddpg_grad_target_zero. Qed.
Print Assumptions C03_ddpg_grad_target_zero.

Theorem C03_td3_lap_grad_target_zero : forall (q1 q2 qt qt' r d : tensor (R * R)) (g mp : R * R),
  tproj qt = tproj qt' -> td3_lap_loss dual_sg q1 q2 qt r d g mp = td3_lap_loss dual_sg q1 q2 qt' r d g mp.
Proof. exact td3_lap_grad_target_zero. Qed.
Print Assumptions C03_td3_lap_grad_target_zero.

Theorem C03_dqn_grad_bootstrap_zero : forall (q_all nq nq' : list (list (R * R))) acts (r d : tensor (R * R)) (g : R * R),
  map (map fst) nq = map (map fst) nq' -> dqn_loss dual_sg q_all nq acts r d g = dqn_loss dual_sg q_all nq' acts r d g.
Proof. exact dqn_grad_bootstrap_zero. Qed.
Print Assumptions C03_dqn_grad_bootstrap_zero.

Theorem C03_ddqn_grad_bootstrap_zero : forall (q_all on on' tg tg' : list (list (R * R))) acts (r d : tensor (R * R)) (g : R * R),
  map (map fst) on = map (map fst) on' -> map (map fst) tg = map (map fst) tg' ->
  ddqn_loss dual_sg q_all on tg acts r d g = ddqn_loss dual_sg q_all on' tg' acts r d g.
Proof. exact ddqn_grad_bootstrap_zero. Qed.
Print Assumptions C03_ddqn_grad_bootstrap_zero.

(** TD7's state-action embedding loss: MSE against the gradient-stopped successor embedding. *)
Theorem C03_sale_eq_spec : forall n z (A B : list (list R)), mat n z A -> mat n z B ->
  sale_loss idR (T2 A) (T2 B) = Ok (nmean (concat (zipw (zipw sqerr) A B))).
Proof. exact sale_eq_spec. Qed.
Print Assumptions C03_sale_eq_spec.

Theorem C03_sale_grad_target_zero : forall (zsa zsp zsp' : tensor (R * R)),
  tproj zsp = tproj zsp' -> sale_loss dual_sg zsa zsp = sale_loss dual_sg zsa zsp'.
Proof. exact sale_grad_target_zero. Qed.
Print Assumptions C03_sale_grad_target_zero.
