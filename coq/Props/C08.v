(** C08 — prioritized replay samples proportionally and tracks priorities correctly.
    Only property theorems, each closed by [exact]. *)
From Coq Require Import ZArith QArith List Arith Reals.
From RLV Require Import Model.Buffers Model.BufferRun Model.Num Model.PrioNum
  Proofs.PriorityProofs Proofs.PriorityBook Proofs.WeightsProofs.
Import ListNotations.
Local Close Scope Q_scope.
Local Open Scope nat_scope.

(** frame conditions: sampling leaves stored priorities and the tracked maximum unchanged (also for the
    prioritized subtrajectory buffer, whose mask only restricts the draw), adding changes only the written slots;
    writing the masked priorities back into the store is refuted *)
Theorem C08_sample_frame : forall p n mask us,
  prio (fst (pb_sample p n mask us)) = prio p /\ maxp (fst (pb_sample p n mask us)) = maxp p.
Proof. exact pb_sample_frame. Qed.
Print Assumptions C08_sample_frame.
Theorem C08_subtraj_sample_frame : forall b us,
  p_sb (fst (sbp_sample_starts b us)) = p_sb b /\ prio (p_pb (fst (sbp_sample_starts b us))) = prio (p_pb b) /\
  maxp (p_pb (fst (sbp_sample_starts b us))) = maxp (p_pb b).
Proof. exact sbp_sample_frame. Qed.
Print Assumptions C08_subtraj_sample_frame.
Theorem C08_add_frame : forall p idxs j, ~ In j idxs -> nth j (prio (pb_init_prio p idxs)) 0%Q = nth j (prio p) 0%Q.
Proof. exact pb_init_prio_frame. Qed.
Print Assumptions C08_add_frame.
Theorem C08_sample_inplace_refuted :
  exists p n mask us i, (0 < nth i (prio p) 0)%Q /\ (nth i (prio (fst (pb_sample_inplace p n mask us))) 0 == 0)%Q.
Proof. exact pb_sample_inplace_refuted. Qed.
Print Assumptions C08_sample_inplace_refuted.

(** Index i is drawn exactly when u*T falls in (c_{i-1}, c_i], an interval of length
    p_i*m_i: probability p_i m_i / T over valid entries only; never a masked-out entry,
    a zero-priority entry or an entry beyond the filled region. *)
Theorem C08_sample_law : forall pr n mask u,
  Forall (fun q => 0 <= q)%Q pr ->
  let w := masked pr n mask in
  (0 < psum w)%Q -> (0 < u)%Q -> (u < 1)%Q ->
  let i := nth 0 (pb_sample_idx pr n mask [u]) 0 in
  i < n /\ i < length w /\ (0 < nth i w 0)%Q /\
  (psum (firstn i w) < u * psum w)%Q /\ (u * psum w <= psum (firstn (S i) w))%Q.
Proof. exact sample_law. Qed.
Print Assumptions C08_sample_law.

Theorem C08_masked_entry_never_sampled : forall pr n m i,
  (0 < nth i (masked pr n (Some m)) 0)%Q -> nth i m false = true /\ (0 < nth i pr 0)%Q /\ i < n.
Proof. exact masked_nth_pos. Qed.
Print Assumptions C08_masked_entry_never_sampled.

Theorem C08_stratified_sample_law : forall pr n us j u,
  Forall (fun q => 0 <= q)%Q pr ->
  let w := firstn n pr in
  (0 < psum w)%Q -> nth_error us j = Some u -> (0 < u)%Q -> (u < 1)%Q ->
  let B := inject_Z (Z.of_nat (length us)) in
  exists x i, nth_error (strat_sample_idx pr n us) j = Some i /\
    (inject_Z (Z.of_nat j) * (psum w / B) < x)%Q /\ (x < inject_Z (Z.of_nat (S j)) * (psum w / B))%Q /\
    i < n /\ (0 < nth i w 0)%Q /\ (psum (firstn i w) < x)%Q /\ (x <= psum (firstn (S i) w))%Q.
Proof. exact strat_sample_law. Qed.
Print Assumptions C08_stratified_sample_law.

Theorem C08_new_gets_max : forall (A : Type) (b : lap A) (x : A),
  ins (l_rb b) < length (prio (l_pb b)) ->
  nth (ins (l_rb b)) (prio (l_pb (lap_add b x))) 0%Q = maxp (l_pb b) /\
  maxp (l_pb (lap_add b x)) = maxp (l_pb b) /\
  forall j, j <> ins (l_rb b) -> nth j (prio (l_pb (lap_add b x))) 0%Q = nth j (prio (l_pb b)) 0%Q.
Proof. exact @new_gets_max. Qed.
Print Assumptions C08_new_gets_max.

Theorem C08_write_position_in_range : forall strat N ops, 1 <= N ->
  let b := lap_after strat N ops in ins (l_rb b) < length (prio (l_pb b)).
Proof. exact ins_in_range. Qed.
Print Assumptions C08_write_position_in_range.

Theorem C08_update_exact : forall p ps j,
  Forall (fun i => i < length (prio p)) (sampled p) ->
  nth j (prio (pb_update p ps)) 0%Q =
  match last_assoc j (combine (sampled p) ps) with
  | Some v => v
  | None => nth j (prio p) 0%Q
  end.
Proof. exact update_exact. Qed.
Print Assumptions C08_update_exact.

Theorem C08_update_frame : forall p ps j,
  Forall (fun i => i < length (prio p)) (sampled p) ->
  ~ In j (sampled p) -> nth j (prio (pb_update p ps)) 0%Q = nth j (prio p) 0%Q.
Proof. exact update_frame. Qed.
Print Assumptions C08_update_frame.

Theorem C08_max_dominates : forall strat N ops, 1 <= N ->
  let b := lap_after strat N ops in
  Forall (fun x => x <= maxp (l_pb b))%Q (firstn (len (l_rb b)) (prio (l_pb b))).
Proof. exact max_dominates. Qed.
Print Assumptions C08_max_dominates.

Theorem C08_reset_exact : forall p n, 0 < n -> 0 < length (prio p) ->
  Dom n (pb_reset p n) /\ In (maxp (pb_reset p n)) (firstn n (prio p)) /\ prio (pb_reset p n) = prio p.
Proof. exact reset_exact. Qed.
Print Assumptions C08_reset_exact.

Theorem C08_mt_update_targets_sampled : forall (m : mt (lap Z)) ps t,
  sampled_task m <> Some t ->
  nth_error (bufs (fst (mt_step m (MUpdate ps)))) t = nth_error (bufs m) t.
Proof. exact mt_update_targets_sampled. Qed.
Print Assumptions C08_mt_update_targets_sampled.

Local Open Scope R_scope.
Theorem C08_is_weights_range : forall n ps beta,
  ps <> [] -> Forall (fun p => 0 < p) ps -> 0 < n -> 0 <= beta ->
  let w := is_weights n ps beta in
  Forall (fun x => 0 < x <= 1) w /\ In 1 w /\ length w = length ps.
Proof. exact is_weights_range. Qed.
Print Assumptions C08_is_weights_range.

Theorem C08_is_weights_antitone : forall n ps beta i j,
  Forall (fun p => 0 < p) ps -> 0 < n -> 0 <= beta ->
  (i < length ps)%nat -> (j < length ps)%nat -> nth i ps 0 <= nth j ps 0 ->
  nth j (is_weights n ps beta) 0 <= nth i (is_weights n ps beta) 0.
Proof. exact is_weights_antitone. Qed.
Print Assumptions C08_is_weights_antitone.

Theorem C08_lap_priority_pos_mono : forall d d' pmin alpha,
  0 < pmin -> 0 <= alpha -> 0 <= d <= d' ->
  0 < lap_priority d pmin alpha /\ lap_priority d pmin alpha <= lap_priority d' pmin alpha.
Proof. exact lap_priority_pos_mono. Qed.
Print Assumptions C08_lap_priority_pos_mono.

Theorem C08_per_priority_pos_mono : forall d d' alpha eps,
  0 < eps -> 0 <= alpha -> 0 <= d <= d' ->
  0 < per_priority d alpha eps /\ per_priority d alpha eps <= per_priority d' alpha eps.
Proof. exact per_priority_pos_mono. Qed.
Print Assumptions C08_per_priority_pos_mono.
