(** C07 — return and advantage estimates obey their recurrences and are causal (over R). *)
From Coq Require Import Reals List Bool Arith Lra Lia.
From RLV Require Import Model.Num Model.Returns Proofs.RingProofs Proofs.WeightsProofs.
Import ListNotations.
Local Open Scope R_scope.

(* ------------------------------------------------------------------ *)
(** ** reward-to-go *)
Theorem rtg_length (rs : list R) g : length (reward_to_go rs g) = length rs.
Proof. induction rs as [|r t IH]; cbn; [reflexivity|]. rewrite IH. reflexivity. Qed.

(** G_t = r_t + gamma * G_{t+1}, G_T = 0 *)
Theorem rtg_rec (rs : list R) g t : (t < length rs)%nat ->
  nth t (reward_to_go rs g) 0 = nth t rs 0 + g * nth (S t) (reward_to_go rs g) 0.
Proof.
  revert t; induction rs as [|r rest IH]; intros t Ht; [cbn in Ht; lia|].
  destruct t as [|t].
  - cbn [reward_to_go nth]. cbn [nadd nmul nzero R_ops]. destruct (reward_to_go rest g); cbn [hd nth]; ring.
  - cbn [reward_to_go nth]. apply IH. cbn in Ht. lia.
Qed.

(** causal: the estimate at time t does not depend on earlier steps *)
Theorem rtg_causal (pre1 pre2 rest : list R) g : length pre1 = length pre2 ->
  skipn (length pre1) (reward_to_go (pre1 ++ rest) g) = reward_to_go rest g /\
  skipn (length pre2) (reward_to_go (pre2 ++ rest) g) = reward_to_go rest g.
Proof.
  intros _. assert (G : forall pre, skipn (length pre) (reward_to_go (pre ++ rest) g) = reward_to_go rest g).
  { induction pre as [|p pre IH]; cbn [app length skipn reward_to_go]; [reflexivity|exact IH]. }
  split; apply G.
Qed.

(* ------------------------------------------------------------------ *)
(** ** generalized advantage estimation *)
Theorem gae_length (steps : list gstep) g l : length (gae_adv steps g l) = length steps.
Proof. induction steps as [|s t IH]; cbn; [reflexivity|]. rewrite IH. reflexivity. Qed.

(** A_t = delta_t + gamma*lambda*(1 - d_t) * A_{t+1}, A_T = 0,
    delta_t = r_t + gamma * V(s_{t+1}) * (1 - d_t) - V(s_t) *)
Theorem gae_rec (steps : list gstep) g l t : (t < length steps)%nat ->
  let '(r, v, nv, d) := nth t steps (0, 0, 0, 0) in
  nth t (gae_adv steps g l) 0 = (r + g * nv * (1 - d) - v) + g * l * (1 - d) * nth (S t) (gae_adv steps g l) 0.
Proof.
  revert t; induction steps as [|s rest IH]; intros t Ht; [cbn in Ht; lia|].
  destruct t as [|t].
  - cbn [nth gae_adv]. destruct s as [[[r v] nv] d]. unfold g_delta, g_carry.
    cbn [nadd nmul nsub nunit nzero R_ops]. destruct (gae_adv rest g l); cbn [hd nth]; ring.
  - cbn [nth gae_adv]. apply IH. cbn in Ht. lia.
Qed.

(** suffix independence: estimates from time t on do not depend on steps before t *)
Lemma gae_suffix (pre rest : list gstep) g l :
  skipn (length pre) (gae_adv (pre ++ rest) g l) = gae_adv rest g l.
Proof. induction pre as [|p pre IH]; cbn [app length skipn gae_adv]; [reflexivity|exact IH]. Qed.

Definition terminated_step (s : gstep) : Prop := snd s = 1.

(** cut at a terminated step: if the last step of [mid] is terminated, the estimates inside
    [mid] do not depend on anything after it *)
Lemma gae_cut (mid post : list gstep) g l : mid <> [] -> terminated_step (last mid (0, 0, 0, 0)) ->
  firstn (length mid) (gae_adv (mid ++ post) g l) = gae_adv mid g l.
Proof.
  induction mid as [|s mid IH]; intros Hne Hlast; [congruence|].
  destruct mid as [|s2 mid'].
  - cbn [app length firstn gae_adv]. destruct s as [[[r v] nv] d]. cbn in Hlast. unfold terminated_step in Hlast.
    cbn in Hlast. subst d. unfold g_delta, g_carry. cbn [nadd nmul nsub nunit R_ops]. f_equal.
    cbn [hd]. destruct (gae_adv post g l); cbn [hd]; lra.
  - assert (IH' := IH ltac:(discriminate) Hlast).
    change ((s :: s2 :: mid') ++ post) with (s :: ((s2 :: mid') ++ post)).
    cbn [gae_adv length firstn]. f_equal.
    + f_equal. f_equal.
      assert (Hh : forall a b : list R, firstn (length (s2 :: mid')) a = b -> (0 < length (s2 :: mid'))%nat -> b <> [] -> hd 0 a = hd 0 b).
      { intros a b E _ Hb. destruct a as [|x a]; [cbn in E; subst; congruence|]. cbn in E. subst b. reflexivity. }
      apply (Hh _ _ IH'); [cbn; lia|]. cbn [gae_adv]. discriminate.
    + exact IH'.
Qed.

(** Causality of GAE: two rollouts that agree from time t up to (and including) the first
    terminated step give the same estimate at every time in that window. *)
Theorem gae_causal (pre1 pre2 mid post1 post2 : list gstep) g l :
  length pre1 = length pre2 -> mid <> [] -> terminated_step (last mid (0, 0, 0, 0)) ->
  firstn (length mid) (skipn (length pre1) (gae_adv (pre1 ++ mid ++ post1) g l)) =
  firstn (length mid) (skipn (length pre2) (gae_adv (pre2 ++ mid ++ post2) g l)).
Proof.
  intros _ Hne Hterm. rewrite !gae_suffix, !gae_cut by assumption. reflexivity.
Qed.

(** Without any termination the estimate still never depends on earlier steps. *)
Theorem gae_past_independent (pre1 pre2 rest : list gstep) g l : length pre1 = length pre2 ->
  skipn (length pre1) (gae_adv (pre1 ++ rest) g l) = skipn (length pre2) (gae_adv (pre2 ++ rest) g l).
Proof. intros _. rewrite !gae_suffix. reflexivity. Qed.

(* ------------------------------------------------------------------ *)
(** ** n-step return with residual discount *)
Fixpoint nstep_spec (rd : list (R * R)) (g : R) : R * R :=
  match rd with
  | [] => (0, 1)
  | (r, d) :: t => let '(G, D) := nstep_spec t g in (r + g * (1 - d) * G, g * (1 - d) * D)
  end.

Lemma nstep_from_spec (rd : list (R * R)) g : forall ret disc,
  nstep_from ret disc rd g = (ret + disc * fst (nstep_spec rd g), disc * snd (nstep_spec rd g)).
Proof.
  induction rd as [|[r d] t IH]; intros ret disc; cbn [nstep_from nstep_spec].
  - cbn. f_equal; lra.
  - rewrite IH. destruct (nstep_spec t g) as [G D]. cbn [fst snd nadd nmul nsub nunit R_ops]. f_equal; lra.
Qed.

(** G = r_0 + gamma (1 - d_0) G', residual discount = gamma (1 - d_0) D' (recurrence), *)
Theorem nstep_rec (rewards terms : list R) g :
  n_step_return rewards terms g = nstep_spec (combine rewards terms) g.
Proof.
  unfold n_step_return. rewrite nstep_from_spec. cbn [nzero nunit R_ops].
  destruct (nstep_spec (combine rewards terms) g). cbn. f_equal; lra.
Qed.

(** ... and the residual discount is gamma^n * prod (1 - d_t). *)
Theorem nstep_discount (rd : list (R * R)) g :
  snd (nstep_spec rd g) = g ^ length rd * fold_right Rmult 1 (map (fun x => 1 - snd x) rd).
Proof.
  induction rd as [|[r d] t IH]; cbn [nstep_spec length map fold_right pow snd]; [lra|].
  destruct (nstep_spec t g) as [G D]. cbn [snd] in *. rewrite IH. ring.
Qed.

(** cut at a terminated step: nothing after it matters and the residual discount is 0 *)
Theorem nstep_causal (pre post1 post2 : list (R * R)) r g :
  nstep_spec (pre ++ (r, 1) :: post1) g = nstep_spec (pre ++ (r, 1) :: post2) g /\
  snd (nstep_spec (pre ++ (r, 1) :: post1) g) = 0.
Proof.
  induction pre as [|[r0 d0] pre IH]; cbn [app nstep_spec].
  - destruct (nstep_spec post1 g) as [G1 D1]. destruct (nstep_spec post2 g) as [G2 D2]. cbn. split; [f_equal; lra|lra].
  - destruct IH as [IH1 IH2]. rewrite IH1. destruct (nstep_spec (pre ++ (r, 1) :: post2) g) as [G D] eqn:E.
    rewrite IH1 in IH2. cbn [snd] in *. subst D. split; [reflexivity|cbn; lra].
Qed.

(* ------------------------------------------------------------------ *)
(** ** batched preparations *)
(** A2C: entry (t, j) of the advantage / return matrices is the t-th estimate of the GAE
    computed from column j alone (so no estimate depends on another environment). *)
Theorem a2c_entry nenv (Rw V D : list (list R)) boot g l t j : (t < length Rw)%nat -> (j < nenv)%nat ->
  nth j (nth t (fst (a2c_batch nenv Rw V D boot g l)) []) 0 = nth t (fst (a2c_col j Rw V D boot g l)) 0 /\
  nth j (nth t (snd (a2c_batch nenv Rw V D boot g l)) []) 0 = nth t (snd (a2c_col j Rw V D boot g l)) 0.
Proof.
  intros Ht Hj. unfold a2c_batch. cbn [fst snd].
  split.
  - rewrite (nth_map_in _ (seq 0 (length Rw)) t 0%nat []) by (rewrite seq_length; lia). rewrite seq_nth by lia. cbn [Nat.add].
    rewrite (nth_map_in _ _ j (a2c_col 0 Rw V D boot g l) 0) by (rewrite map_length, seq_length; lia).
    rewrite (nth_map_in _ (seq 0 nenv) j 0%nat _) by (rewrite seq_length; lia). rewrite seq_nth by lia. reflexivity.
  - rewrite (nth_map_in _ (seq 0 (length Rw)) t 0%nat []) by (rewrite seq_length; lia). rewrite seq_nth by lia. cbn [Nat.add].
    rewrite (nth_map_in _ _ j (a2c_col 0 Rw V D boot g l) 0) by (rewrite map_length, seq_length; lia).
    rewrite (nth_map_in _ (seq 0 nenv) j 0%nat _) by (rewrite seq_length; lia). rewrite seq_nth by lia. reflexivity.
Qed.

Theorem a2c_env_independent j (R1 V1 D1 R2 V2 D2 : list (list R)) boot1 boot2 g l :
  column j R1 = column j R2 -> column j V1 = column j V2 -> column j D1 = column j D2 ->
  nth j boot1 0 = nth j boot2 0 ->
  a2c_col j R1 V1 D1 boot1 g l = a2c_col j R2 V2 D2 boot2 g l.
Proof. intros H1 H2 H3 H4. unfold a2c_col. cbn [nzero R_ops]. rewrite H1, H2, H3, H4. reflexivity. Qed.

(** PPO: advantages are estimated per environment; the segment of environment j in the
    flat output is the GAE of column j alone. *)
Theorem ppo_env_segment (pre : list (list gstep)) (c : list gstep) (post : list (list gstep)) g l :
  firstn (length c) (skipn (length (concat pre)) (ppo_gae (pre ++ c :: post) g l)) = gae_adv c g l.
Proof.
  unfold ppo_gae. rewrite map_app, concat_app. cbn [map concat].
  assert (Hl : length (concat (map (fun c0 => gae_adv c0 g l) pre)) = length (concat pre)).
  { induction pre as [|p pre IH]; cbn; [reflexivity|]. rewrite !app_length, IH, gae_length. reflexivity. }
  rewrite <- Hl, skipn_app, skipn_all, Nat.sub_diag. cbn [skipn app].
  rewrite <- (gae_length c g l), firstn_app, Nat.sub_diag, firstn_all. cbn [firstn]. rewrite app_nil_r. reflexivity.
Qed.

Theorem ppo_env_independent (pre1 pre2 : list (list gstep)) c (post1 post2 : list (list gstep)) g l :
  firstn (length c) (skipn (length (concat pre1)) (ppo_gae (pre1 ++ c :: post1) g l)) =
  firstn (length c) (skipn (length (concat pre2)) (ppo_gae (pre2 ++ c :: post2) g l)).
Proof. rewrite !ppo_env_segment. reflexivity. Qed.

(** Counterexample for the earlier formulation (one GAE over the environment-major
    flattened rollout): the advantages of environment 0 depended on environment 1 ... *)
Theorem ppo_flat_env_independent_refuted : exists (c0 c1 c1' : list gstep) g l,
  firstn (length c0) (ppo_flat_gae [c0; c1] g l) <> firstn (length c0) (ppo_flat_gae [c0; c1'] g l).
Proof.
  exists [(0, 0, 0, 0)], [(0, 0, 0, 0)], [(1, 0, 0, 0)], 1, 1.
  unfold ppo_flat_gae. cbn. unfold g_delta, g_carry. cbn. intro H. injection H as H. lra.
Qed.

(** ... and holds exactly when the carried advantage is cut, i.e. when every environment's
    last step in the rollout is terminated. *)
Theorem ppo_flat_env_independent_partial (c0 : list gstep) (rest1 rest2 : list (list gstep)) g l :
  c0 <> [] -> terminated_step (last c0 (0, 0, 0, 0)) ->
  firstn (length c0) (ppo_flat_gae (c0 :: rest1) g l) = firstn (length c0) (ppo_flat_gae (c0 :: rest2) g l).
Proof.
  intros Hne Hterm. unfold ppo_flat_gae. cbn [concat]. rewrite !gae_cut by assumption. reflexivity.
Qed.

(* ---- masked model rollout (MR.Q encoder loss) ---- *)
Lemma masked_rollout_zero (steps : list (R * R)) : masked_rollout 0 steps = 0.
Proof.
  induction steps as [|[l nd] rest IH]; cbn [masked_rollout]; [reflexivity|].
  cbn [nmul nadd nzero R_ops]. replace (nd * 0) with 0 by ring. rewrite IH. ring.
Qed.

(** whatever follows the first terminated step (not_done = 0) of a sub-trajectory does not enter its loss *)
Theorem rollout_ignores_post_terminal (pre post post' : list (R * R)) (l m : R) :
  masked_rollout m (pre ++ (l, 0) :: post) = masked_rollout m (pre ++ (l, 0) :: post').
Proof.
  revert m. induction pre as [|[l0 nd0] pre IH]; intro m; cbn [app masked_rollout].
  - cbn [nmul nadd R_ops]. replace (0 * m) with 0 by ring. rewrite !masked_rollout_zero. reflexivity.
  - rewrite (IH (nmul nd0 m)). reflexivity.
Qed.

Corollary rollout_loss_ignores_post_terminal (pre post post' : list (R * R)) (l : R) :
  rollout_loss (pre ++ (l, 0) :: post) = rollout_loss (pre ++ (l, 0) :: post').
Proof. apply rollout_ignores_post_terminal. Qed.

(** the non-cumulative mask lets data two steps after a termination back in *)
Lemma rollout_noncum_refuted : exists (pre post post' : list (R * R)) (l : R),
  rollout_noncum 1 (pre ++ (l, 0) :: post) <> rollout_noncum 1 (pre ++ (l, 0) :: post').
Proof.
  exists [], [(0, 1); (1, 1)], [(0, 1); (2, 1)], 0.
  cbn [app rollout_noncum nmul nadd nzero R_ops]. lra.
Qed.
