(** C19 — a saved image that contains every attribute except the rebuilt Batch type is
    a sufficient statistic of a buffer: reloading it gives the same object and the
    same outputs and successor states under every continuation.  Parameter trees:
    pickle / Orbax round trips are the identity on paths and leaves, and equal
    leaves give equal outputs.  Necessity: forgetting one attribute breaks it. *)
From Coq Require Import ZArith QArith List Bool Arith Lia.
From RLV Require Import Model.Buffers Model.BufferRun Model.Persist Proofs.RingProofs.
Import ListNotations.
Local Close Scope Q_scope.
Local Open Scope nat_scope.

(* ------------------------------------------------------------------ *)
(** ** helpers *)
Lemma keys_eqb_refl a : keys_eqb a a = true.
Proof. induction a as [|x t IH]; cbn; [reflexivity|]. rewrite Nat.eqb_refl, IH. reflexivity. Qed.
Lemma keys_eqb_eq a : forall b, keys_eqb a b = true -> a = b.
Proof.
  induction a as [|x t IH]; intros [|y u] H; cbn in H; try discriminate; [reflexivity|].
  apply andb_true_iff in H. destruct H as [H1 H2].
  apply Nat.eqb_eq in H1. apply IH in H2. congruence.
Qed.

Lemma run_nil {T P O} (step : T -> P -> T * O) s : run step s [] = (s, []).
Proof. reflexivity. Qed.
Lemma run_cons {T P O} (step : T -> P -> T * O) s p t :
  run step s (p :: t) =
  (fst (run step (fst (step s p)) t), snd (step s p) :: snd (run step (fst (step s p)) t)).
Proof. cbn [run]. destruct (step s p) as [s' out]. cbn [fst snd]. destruct (run step s' t); reflexivity. Qed.

Lemma run_app {T P O} (step : T -> P -> T * O) a : forall s b,
  run step s (a ++ b) =
  (fst (run step (fst (run step s a)) b), snd (run step s a) ++ snd (run step (fst (run step s a)) b)).
Proof.
  induction a as [|p t IH]; intros s b.
  - cbn [app]. rewrite run_nil. cbn [fst snd app]. destruct (run step s b); reflexivity.
  - cbn [app]. rewrite !run_cons. cbn [fst snd]. rewrite IH. cbn [fst snd app]. reflexivity.
Qed.
Lemma run_length {T P O} (step : T -> P -> T * O) ops : forall s, length (snd (run step s ops)) = length ops.
Proof. induction ops as [|p t IH]; intro s; [reflexivity|]. rewrite run_cons. cbn [snd length]. rewrite IH. reflexivity. Qed.

Lemma nth_error_seq0 n k : k < n -> nth_error (seq 0 n) k = Some k.
Proof.
  intro H. rewrite (nth_error_nth' _ 0) by (rewrite seq_length; exact H).
  rewrite seq_nth by exact H. reflexivity.
Qed.

Lemma skipn_app_exact {A} (a b : list A) : skipn (length a) (a ++ b) = b.
Proof. induction a; cbn; auto. Qed.

(* ------------------------------------------------------------------ *)
(** ** the BufferRun traces are the output component of [run] *)
Lemma rb_trace_run ops : forall b, rb_trace b ops = snd (run rb_step b ops).
Proof.
  induction ops as [|o t IH]; intro b; [reflexivity|].
  rewrite run_cons. cbn [rb_trace snd]. destruct (rb_step b o) as [b' out]. cbn [fst snd]. rewrite IH. reflexivity.
Qed.
Lemma lap_trace_run strat ops : forall b, lap_trace strat b ops = snd (run (lap_step strat) b ops).
Proof.
  induction ops as [|o t IH]; intro b; [reflexivity|].
  rewrite run_cons. cbn [lap_trace snd]. destruct (lap_step strat b o) as [b' out]. cbn [fst snd]. rewrite IH. reflexivity.
Qed.
Lemma sb_trace_run hs rows : forall b, sb_trace b hs rows = snd (run (sb_step hs) b rows).
Proof.
  induction rows as [|x t IH]; intro b; [reflexivity|].
  rewrite run_cons. cbn [sb_trace snd].
  replace (sb_step hs b x)
    with (let '(b', at_) := sb_add b x in (b', (sb_obs b' at_, sb_all_windows b' hs))) by reflexivity.
  destruct (sb_add b x) as [b' at_]. cbn [fst snd]. rewrite IH. reflexivity.
Qed.
Lemma sbp_trace_run ops : forall b, sbp_trace b ops = snd (run sbp_step b ops).
Proof.
  induction ops as [|o t IH]; intro b; [reflexivity|].
  rewrite run_cons. cbn [sbp_trace snd]. destruct (sbp_step b o) as [b' out]. cbn [fst snd]. rewrite IH. reflexivity.
Qed.
Lemma mt_trace_run ops : forall m, mt_trace m ops = snd (run mt_step m ops).
Proof.
  induction ops as [|o t IH]; intro m; [reflexivity|].
  rewrite run_cons. cbn [mt_trace snd]. destruct (mt_step m o) as [m' out]. cbn [fst snd]. rewrite IH. reflexivity.
Qed.
Lemma mtu_trace_run ops : forall m, mtu_trace m ops = snd (run mtu_step m ops).
Proof.
  induction ops as [|o t IH]; intro m; [reflexivity|].
  rewrite run_cons. cbn [mtu_trace snd]. destruct (mtu_step m o) as [m' out]. cbn [fst snd]. rewrite IH. reflexivity.
Qed.

(* ------------------------------------------------------------------ *)
(** ** single buffers *)
Section LiveProofs.
  Context {T I P O : Type}.
  Variable enc : T -> I.
  Variable dec : I -> T.
  Hypothesis dec_enc : forall s, dec (enc s) = s.
  Hypothesis enc_dec : forall i, enc (dec i) = i.
  Variable step : T -> P -> T * O.
  Variable samples : P -> bool.
  Notation ls := (lstep step samples).

  (** [__setstate__] recomputes Batch from the stored keys; nothing else changes. *)
  Lemma load_save_fields (o : live T) :
    l_keys (load dec (save enc o)) = l_keys o /\
    l_batch (load dec (save enc o)) = mk_batch (l_keys o) /\
    l_core (load dec (save enc o)) = l_core o.
  Proof. unfold load, save. cbn. rewrite dec_enc. auto. Qed.

  Lemma load_save_id (o : live T) : wf o -> load dec (save enc o) = o.
  Proof. destruct o as [k b c]. unfold wf, load, save. cbn. intros ->. rewrite dec_enc. reflexivity. Qed.

  Lemma save_load_id (i : image I) : save enc (load dec i) = i.
  Proof. destruct i as [k f]. unfold load, save. cbn. rewrite enc_dec. reflexivity. Qed.

  Lemma load_wf (i : image I) : wf (load dec i).
  Proof. reflexivity. Qed.

  Lemma fresh_wf ks (s : T) : wf (fresh ks s).
  Proof. reflexivity. Qed.

  Lemma wf_label (o : live T) : wf o -> label o = BatchFields (l_keys o).
  Proof. unfold wf, label, mk_batch. intros ->. rewrite keys_eqb_refl. reflexivity. Qed.

  Lemma save_inj (o1 o2 : live T) :
    save enc o1 = save enc o2 -> l_keys o1 = l_keys o2 /\ l_core o1 = l_core o2.
  Proof.
    unfold save. intro H. injection H as Hk Hc. split; [exact Hk|].
    rewrite <- (dec_enc (l_core o1)), <- (dec_enc (l_core o2)), Hc. reflexivity.
  Qed.

  Lemma wf_same_image (o1 o2 : live T) : wf o1 -> wf o2 -> save enc o1 = save enc o2 -> o1 = o2.
  Proof.
    intros W1 W2 H. rewrite <- (load_save_id o1 W1), <- (load_save_id o2 W2), H. reflexivity.
  Qed.

  Lemma lstep_wf (o : live T) p : wf o -> wf (fst (ls o p)).
  Proof. unfold wf, lstep. destruct (step (l_core o) p). cbn. auto. Qed.

  Lemma run_wf ops : forall o : live T, wf o -> wf (fst (run ls o ops)).
  Proof.
    induction ops as [|p t IH]; intros o W; [exact W|].
    rewrite run_cons. cbn [fst]. apply IH, lstep_wf, W.
  Qed.

  (** One step: two live objects with the same image (equal on every attribute
      except Batch) have successors with the same image and return the same data. *)
  Lemma state_sufficient (o1 o2 : live T) p :
    save enc o1 = save enc o2 ->
    save enc (fst (ls o1 p)) = save enc (fst (ls o2 p)) /\
    fst (snd (ls o1 p)) = fst (snd (ls o2 p)).
  Proof.
    intro H. destruct (save_inj _ _ H) as [Hk Hc].
    unfold lstep. rewrite Hc. destruct (step (l_core o2) p) as [c' out]. cbn [fst snd].
    unfold save. cbn. rewrite Hk. auto.
  Qed.

  (** Every continuation, every pair of live objects (Batch arbitrary): by induction. *)
  Lemma image_continuation ops : forall o1 o2 : live T,
    save enc o1 = save enc o2 ->
    save enc (fst (run ls o1 ops)) = save enc (fst (run ls o2 ops)) /\
    map fst (snd (run ls o1 ops)) = map fst (snd (run ls o2 ops)).
  Proof.
    induction ops as [|p t IH]; intros o1 o2 H.
    - rewrite !run_nil. cbn. auto.
    - rewrite !run_cons. cbn [fst snd map].
      destruct (state_sufficient o1 o2 p H) as [Hs Ho].
      destruct (IH _ _ Hs) as [H1 H2]. rewrite Ho, H2. auto.
  Qed.

  (** ... and with the Batch invariant, outputs including the batch type agree. *)
  Lemma bisim_continuation ops : forall o1 o2 : live T,
    wf o1 -> wf o2 -> save enc o1 = save enc o2 -> run ls o1 ops = run ls o2 ops.
  Proof.
    induction ops as [|p t IH]; intros o1 o2 W1 W2 H.
    - rewrite !run_nil. f_equal. apply wf_same_image; assumption.
    - rewrite !run_cons.
      destruct (state_sufficient o1 o2 p H) as [Hs Ho].
      assert (Hl : snd (ls o1 p) = snd (ls o2 p)).
      { destruct (snd (ls o1 p)) as [a1 b1] eqn:E1. destruct (snd (ls o2 p)) as [a2 b2] eqn:E2.
        cbn [fst] in Ho. subst a2. f_equal.
        unfold lstep in E1, E2.
        destruct (step (l_core o1) p); destruct (step (l_core o2) p). cbn [snd] in E1, E2.
        injection E1 as _ <-. injection E2 as _ <-.
        rewrite (wf_label o1 W1), (wf_label o2 W2). destruct (save_inj _ _ H) as [-> _]. reflexivity. }
      rewrite (IH _ _ (lstep_wf o1 p W1) (lstep_wf o2 p W2) Hs), Hl. reflexivity.
  Qed.

  Theorem reload_continuation (o : live T) ops :
    wf o -> run ls (load dec (save enc o)) ops = run ls o ops.
  Proof. intro W. apply bisim_continuation; [apply load_wf|exact W|apply save_load_id]. Qed.

  (** Without the invariant (any Batch value in the original): stored attributes and
      returned data still agree. *)
  Theorem reload_image_continuation (o : live T) ops :
    save enc (fst (run ls (load dec (save enc o)) ops)) = save enc (fst (run ls o ops)) /\
    map fst (snd (run ls (load dec (save enc o)) ops)) = map fst (snd (run ls o ops)).
  Proof. apply image_continuation, save_load_id. Qed.

  (** The lifted interpreter projects onto the BufferRun interpreter. *)
  Lemma lift_core ops : forall o : live T,
    l_core (fst (run ls o ops)) = fst (run step (l_core o) ops) /\
    l_keys (fst (run ls o ops)) = l_keys o /\
    map fst (snd (run ls o ops)) = snd (run step (l_core o) ops).
  Proof.
    induction ops as [|p t IH]; intro o.
    - rewrite !run_nil. cbn. auto.
    - rewrite !run_cons. cbn [fst snd map].
      assert (E : l_core (fst (ls o p)) = fst (step (l_core o) p) /\ l_keys (fst (ls o p)) = l_keys o /\
                  fst (snd (ls o p)) = snd (step (l_core o) p)).
      { unfold lstep. destruct (step (l_core o) p). cbn. auto. }
      destruct E as (E1 & E2 & E3). destruct (IH (fst (ls o p))) as (H1 & H2 & H3).
      rewrite H1, H2, H3, E1, E2, E3. auto.
  Qed.

  (** Hence on core states: the trace of the BufferRun interpreter from the reloaded
      core state is the trace from the original one, for every state whatsoever. *)
  Theorem reload_core_continuation (s : T) ks ops :
    run step (l_core (load dec (save enc (fresh ks s)))) ops = run step s ops.
  Proof. unfold load, save, fresh. cbn. rewrite dec_enc. reflexivity. Qed.

  (** Crash points: a save after any prefix, followed by any continuation. *)
  Theorem crash_point (o0 : live T) prefix cont :
    wf o0 ->
    crash_run enc dec step samples o0 prefix cont =
    (save enc (fst (run ls o0 prefix)),
     skipn (length prefix) (snd (run ls o0 (prefix ++ cont))),
     save enc (fst (run ls o0 (prefix ++ cont)))).
  Proof.
    intro W. unfold crash_run.
    destruct (run ls o0 prefix) as [o1 outs1] eqn:E1.
    assert (W1 : wf o1). { pose proof (run_wf prefix o0 W) as H. rewrite E1 in H. exact H. }
    rewrite (reload_continuation o1 cont W1).
    rewrite run_app, E1. cbn [fst snd].
    destruct (run ls o1 cont) as [o2 outs2]. cbn [fst snd].
    assert (L : length outs1 = length prefix).
    { pose proof (run_length ls prefix o0) as H. rewrite E1 in H. exact H. }
    rewrite <- L, skipn_app_exact. reflexivity.
  Qed.

  Theorem crash_all_spec (o0 : live T) ops k :
    wf o0 -> k <= length ops ->
    nth_error (crash_all enc dec step samples o0 ops) k =
    Some (save enc (fst (run ls o0 (firstn k ops))),
          skipn k (snd (run ls o0 ops)),
          save enc (fst (run ls o0 ops))).
  Proof.
    intros W Hk. unfold crash_all.
    erewrite map_nth_error by (apply nth_error_seq0; lia).
    rewrite crash_point by exact W. rewrite firstn_skipn, firstn_length_le by exact Hk. reflexivity.
  Qed.
End LiveProofs.

(* ------------------------------------------------------------------ *)
(** ** the stored attributes determine the core state, for every class *)
Lemma rb_dec_enc (b : rb Z) : rb_dec (rb_enc b) = b.
Proof. destruct b; reflexivity. Qed.
Lemma rb_enc_dec f : rb_enc (rb_dec f) = f.
Proof. destruct f; reflexivity. Qed.
Lemma pb_dec_enc p : pb_dec (pb_enc p) = p.
Proof. destruct p; reflexivity. Qed.
Lemma pb_enc_dec f : pb_enc (pb_dec f) = f.
Proof. destruct f; reflexivity. Qed.
Lemma lap_dec_enc (b : lap Z) : lap_dec (lap_enc b) = b.
Proof. destruct b as [[c s i l] [p m sa]]; reflexivity. Qed.
Lemma lap_enc_dec f : lap_enc (lap_dec f) = f.
Proof. destruct f as [a b c d [p m sa]]; reflexivity. Qed.
Lemma sb_dec_enc b : sb_dec (sb_enc b) = b.
Proof. destruct b; reflexivity. Qed.
Lemma sb_enc_dec f : sb_enc (sb_dec f) = f.
Proof. destruct f; reflexivity. Qed.
Lemma sbp_dec_enc b : sbp_dec (sbp_enc b) = b.
Proof. destruct b as [s p]. unfold sbp_dec, sbp_enc. cbn. rewrite sb_dec_enc, pb_dec_enc. reflexivity. Qed.
Lemma sbp_enc_dec f : sbp_enc (sbp_dec f) = f.
Proof. destruct f as [s p]. unfold sbp_dec, sbp_enc. cbn. rewrite sb_enc_dec, pb_enc_dec. reflexivity. Qed.

(** ReplayBuffer *)
Definition rb_load_save_id := load_save_id rb_enc rb_dec rb_dec_enc.
Definition rb_load_rebuilds_batch := load_save_fields rb_enc rb_dec rb_dec_enc.
Definition rb_reload_continuation := reload_continuation rb_enc rb_dec rb_dec_enc rb_enc_dec rb_step rop_samples.
Definition rb_reload_image := reload_image_continuation rb_enc rb_dec rb_dec_enc rb_enc_dec rb_step rop_samples.
Definition rb_crash_point := crash_point rb_enc rb_dec rb_dec_enc rb_enc_dec rb_step rop_samples.
(** LAP (strat = false) and PrioritizedReplayBuffer (strat = true) *)
Definition lap_load_save_id := load_save_id lap_enc lap_dec lap_dec_enc.
Definition lap_reload_continuation strat :=
  reload_continuation lap_enc lap_dec lap_dec_enc lap_enc_dec (lap_step strat) lapop_samples.
Definition lap_reload_image strat :=
  reload_image_continuation lap_enc lap_dec lap_dec_enc lap_enc_dec (lap_step strat) lapop_samples.
Definition lap_crash_point strat :=
  crash_point lap_enc lap_dec lap_dec_enc lap_enc_dec (lap_step strat) lapop_samples.
(** SubtrajectoryReplayBuffer *)
Definition sb_load_save_id := load_save_id sb_enc sb_dec sb_dec_enc.
Definition sb_reload_continuation hs :=
  reload_continuation sb_enc sb_dec sb_dec_enc sb_enc_dec (sb_step hs) srow_samples.
Definition sb_reload_image hs :=
  reload_image_continuation sb_enc sb_dec sb_dec_enc sb_enc_dec (sb_step hs) srow_samples.
Definition sb_crash_point hs :=
  crash_point sb_enc sb_dec sb_dec_enc sb_enc_dec (sb_step hs) srow_samples.
(** SubtrajectoryReplayBufferPER *)
Definition sbp_load_save_id := load_save_id sbp_enc sbp_dec sbp_dec_enc.
Definition sbp_reload_continuation :=
  reload_continuation sbp_enc sbp_dec sbp_dec_enc sbp_enc_dec sbp_step pop_samples.
Definition sbp_reload_image :=
  reload_image_continuation sbp_enc sbp_dec sbp_dec_enc sbp_enc_dec sbp_step pop_samples.
Definition sbp_crash_point :=
  crash_point sbp_enc sbp_dec sbp_dec_enc sbp_enc_dec sbp_step pop_samples.

(** On the BufferRun traces themselves: for EVERY core state (reachable or not), every
    key list and every continuation, the trace from the reloaded state is the trace
    from the original state. *)
Theorem rb_trace_reload (b : rb Z) ks ops :
  rb_trace (l_core (load rb_dec (save rb_enc (fresh ks b)))) ops = rb_trace b ops.
Proof. rewrite !rb_trace_run, (reload_core_continuation rb_enc rb_dec rb_dec_enc). reflexivity. Qed.
Theorem lap_trace_reload strat (b : lap Z) ks ops :
  lap_trace strat (l_core (load lap_dec (save lap_enc (fresh ks b)))) ops = lap_trace strat b ops.
Proof. rewrite !lap_trace_run, (reload_core_continuation lap_enc lap_dec lap_dec_enc). reflexivity. Qed.
Theorem sb_trace_reload (b : sb) ks hs rows :
  sb_trace (l_core (load sb_dec (save sb_enc (fresh ks b)))) hs rows = sb_trace b hs rows.
Proof. rewrite !sb_trace_run, (reload_core_continuation sb_enc sb_dec sb_dec_enc). reflexivity. Qed.
Theorem sbp_trace_reload (b : sbp) ks ops :
  sbp_trace (l_core (load sbp_dec (save sbp_enc (fresh ks b)))) ops = sbp_trace b ops.
Proof. rewrite !sbp_trace_run, (reload_core_continuation sbp_enc sbp_dec sbp_dec_enc). reflexivity. Qed.

(* ------------------------------------------------------------------ *)
(** ** multi-task wrapper *)
Section MTProofs.
  Context {L IL P O : Type}.
  Variable enc : L -> IL.
  Variable dec : IL -> L.
  Hypothesis dec_enc : forall s, dec (enc s) = s.
  Hypothesis enc_dec : forall i, enc (dec i) = i.
  Variable step : mt L -> P -> mt L * O.
  Variable batch_of : P -> O -> option nat.
  Notation ms := (mt_lstep step batch_of).

  Lemma map_load_save (l : list (live L)) :
    Forall wf l -> map (load dec) (map (save enc) l) = l.
  Proof.
    induction 1 as [|o t W _ IH]; [reflexivity|].
    cbn [map]. rewrite IH, (load_save_id enc dec dec_enc o W). reflexivity.
  Qed.
  Lemma map_save_load (l : list (image IL)) : map (save enc) (map (load dec) l) = l.
  Proof.
    induction l as [|i t IH]; [reflexivity|].
    cbn [map]. rewrite IH, (save_load_id enc dec enc_dec). reflexivity.
  Qed.

  Lemma mt_load_save_id (m : mt (live L)) : mt_wf m -> mt_load dec (mt_save enc m) = m.
  Proof. destruct m as [b s a t]. unfold mt_wf, mt_load, mt_save. cbn. intro W. rewrite map_load_save by exact W. reflexivity. Qed.
  Lemma mt_save_load_id (i : mt (image IL)) : mt_save enc (mt_load dec i) = i.
  Proof. destruct i as [b s a t]. unfold mt_load, mt_save. cbn. rewrite map_save_load. reflexivity. Qed.
  Lemma mt_load_wf (i : mt (image IL)) : mt_wf (mt_load dec i).
  Proof.
    unfold mt_wf, mt_load. cbn. induction (bufs i) as [|x t IH]; cbn [map]; constructor;
      [reflexivity|exact IH].
  Qed.
  (** every sub-buffer's Batch is recomputed from its own stored keys *)
  Lemma mt_load_rebuilds_batch (m : mt (live L)) :
    map l_batch (bufs (mt_load dec (mt_save enc m))) = map (fun o => mk_batch (l_keys o)) (bufs m) /\
    map l_keys (bufs (mt_load dec (mt_save enc m))) = map l_keys (bufs m) /\
    mt_core (mt_load dec (mt_save enc m)) = mt_core m.
  Proof.
    unfold mt_core, mt_load, mt_save. cbn. rewrite !map_map. cbn.
    repeat split. f_equal. apply map_ext. intro o. apply dec_enc.
  Qed.

  Lemma map_core_of_image (l : list (live L)) :
    map l_core l = map (fun i => dec (i_fields i)) (map (save enc) l).
  Proof. rewrite map_map. apply map_ext. intro o. cbn. rewrite dec_enc. reflexivity. Qed.
  Lemma map_keys_of_image (l : list (live L)) : map l_keys l = map i_keys (map (save enc) l).
  Proof. rewrite map_map. reflexivity. Qed.

  Lemma mt_save_inj (m1 m2 : mt (live L)) :
    mt_save enc m1 = mt_save enc m2 ->
    mt_core m1 = mt_core m2 /\ map l_keys (bufs m1) = map l_keys (bufs m2).
  Proof.
    unfold mt_save, mt_core. intro H. injection H as Hb Hs Ha Ht.
    rewrite !map_core_of_image, !map_keys_of_image, Hb, Hs, Ha, Ht. auto.
  Qed.

  Lemma save_retag (l : list (live L)) : forall c : list L,
    map (save enc) (map retag_buf (combine l c)) =
    map (fun kc => {| i_keys := fst kc; i_fields := enc (snd kc) |}) (combine (map l_keys l) c).
  Proof.
    induction l as [|o t IH]; intros [|x c]; try reflexivity.
    cbn [combine map]. rewrite IH. reflexivity.
  Qed.

  Lemma retag_wf (l : list (live L)) : forall c : list L,
    Forall wf l -> Forall wf (map retag_buf (combine l c)).
  Proof.
    induction l as [|o t IH]; intros [|x c] W; cbn [combine map]; try constructor.
    - inversion W; subst. assumption.
    - apply IH. inversion W; assumption.
  Qed.

  Lemma mt_lstep_wf (m : mt (live L)) p : mt_wf m -> mt_wf (fst (ms m p)).
  Proof.
    unfold mt_wf, mt_lstep. destruct (step (mt_core m) p) as [c' out]. cbn. apply retag_wf.
  Qed.
  Lemma mt_run_wf ops : forall m : mt (live L), mt_wf m -> mt_wf (fst (run ms m ops)).
  Proof.
    induction ops as [|p t IH]; intros m W; [exact W|].
    rewrite run_cons. cbn [fst]. apply IH, mt_lstep_wf, W.
  Qed.

  Lemma mt_state_sufficient (m1 m2 : mt (live L)) p :
    mt_save enc m1 = mt_save enc m2 ->
    mt_save enc (fst (ms m1 p)) = mt_save enc (fst (ms m2 p)) /\
    fst (snd (ms m1 p)) = fst (snd (ms m2 p)).
  Proof.
    intro H. destruct (mt_save_inj _ _ H) as [Hc Hk].
    unfold mt_lstep. rewrite Hc. destruct (step (mt_core m2) p) as [c' out]. cbn [fst snd].
    split; [|reflexivity]. unfold mt_save, mt_retag. cbn. rewrite !save_retag, Hk. reflexivity.
  Qed.

  Lemma mt_image_continuation ops : forall m1 m2 : mt (live L),
    mt_save enc m1 = mt_save enc m2 ->
    mt_save enc (fst (run ms m1 ops)) = mt_save enc (fst (run ms m2 ops)) /\
    map fst (snd (run ms m1 ops)) = map fst (snd (run ms m2 ops)).
  Proof.
    induction ops as [|p t IH]; intros m1 m2 H.
    - rewrite !run_nil. cbn. auto.
    - rewrite !run_cons. cbn [fst snd map].
      destruct (mt_state_sufficient m1 m2 p H) as [Hs Ho].
      destruct (IH _ _ Hs) as [H1 H2]. rewrite Ho, H2. auto.
  Qed.

  Theorem mt_reload_continuation (m : mt (live L)) ops :
    mt_wf m -> run ms (mt_load dec (mt_save enc m)) ops = run ms m ops.
  Proof. intro W. rewrite mt_load_save_id by exact W. reflexivity. Qed.

  Theorem mt_reload_image_continuation (m : mt (live L)) ops :
    mt_save enc (fst (run ms (mt_load dec (mt_save enc m)) ops)) = mt_save enc (fst (run ms m ops)) /\
    map fst (snd (run ms (mt_load dec (mt_save enc m)) ops)) = map fst (snd (run ms m ops)).
  Proof. apply mt_image_continuation, mt_save_load_id. Qed.

  Theorem mt_crash_point (m0 : mt (live L)) prefix cont :
    mt_wf m0 ->
    mt_crash_run enc dec step batch_of m0 prefix cont =
    (mt_save enc (fst (run ms m0 prefix)),
     skipn (length prefix) (snd (run ms m0 (prefix ++ cont))),
     mt_save enc (fst (run ms m0 (prefix ++ cont)))).
  Proof.
    intro W. unfold mt_crash_run.
    destruct (run ms m0 prefix) as [m1 outs1] eqn:E1.
    assert (W1 : mt_wf m1). { pose proof (mt_run_wf prefix m0 W) as H. rewrite E1 in H. exact H. }
    rewrite (mt_reload_continuation m1 cont W1).
    rewrite run_app, E1. cbn [fst snd].
    destruct (run ms m1 cont) as [m2 outs2]. cbn [fst snd].
    assert (Len : length outs1 = length prefix).
    { pose proof (run_length ms prefix m0) as H. rewrite E1 in H. exact H. }
    rewrite <- Len, skipn_app_exact. reflexivity.
  Qed.

End MTProofs.

Section MTCore.
  Context {L P O : Type}.
  Variable step : mt L -> P -> mt L * O.
  Variable batch_of : P -> O -> option nat.
  Notation ms := (mt_lstep step batch_of).
  (** The lifted interpreter projects onto the BufferRun interpreter when the latter
      keeps the number of tasks. *)
  Hypothesis step_len : forall m p, length (bufs (fst (step m p))) = length (bufs m).

  Lemma core_retag (l : list (live L)) : forall c : list L,
    length c = length l -> map l_core (map retag_buf (combine l c)) = c.
  Proof.
    induction l as [|o t IH]; intros [|x c] E; cbn in E; try discriminate; [reflexivity|].
    cbn [combine map]. rewrite IH by lia. reflexivity.
  Qed.
  Lemma mt_lstep_core (m : mt (live L)) p :
    mt_core (fst (ms m p)) = fst (step (mt_core m) p) /\ fst (snd (ms m p)) = snd (step (mt_core m) p).
  Proof.
    unfold mt_lstep. pose proof (step_len (mt_core m) p) as E.
    destruct (step (mt_core m) p) as [c' out]. cbn [fst snd] in E |- *. split; [|reflexivity].
    unfold mt_core at 1. unfold mt_retag. cbn.
    rewrite core_retag.
    - destruct c'; reflexivity.
    - rewrite E. unfold mt_core. cbn. rewrite map_length. reflexivity.
  Qed.
  Lemma mt_lift_core ops : forall m : mt (live L),
    mt_core (fst (run ms m ops)) = fst (run step (mt_core m) ops) /\
    map fst (snd (run ms m ops)) = snd (run step (mt_core m) ops).
  Proof.
    induction ops as [|p t IH]; intro m.
    - rewrite !run_nil. cbn. auto.
    - rewrite !run_cons. cbn [fst snd map].
      destruct (mt_lstep_core m p) as [E1 E2]. destruct (IH (fst (ms m p))) as [H1 H2].
      rewrite H1, H2, E1, E2. auto.
  Qed.
End MTCore.

Lemma mt_step_len (m : mt (lap Z)) p : length (bufs (fst (mt_step m p))) = length (bufs m).
Proof.
  destruct p as [t|x|pos us|ps|]; cbn [mt_step].
  - unfold mt_select. destruct (_ && _); reflexivity.
  - unfold mt_add. destruct (nth_error (bufs m) (selected m)); cbn; [apply upd_length|reflexivity].
  - unfold mt_choose. cbn. destruct (nth_error (active m) pos) as [t|]; cbn; [|reflexivity].
    destruct (nth_error (bufs m) t) as [b|]; cbn; [|reflexivity].
    destruct (lap_sample b us) as [[b' idx] rows]. cbn. apply upd_length.
  - destruct (sampled_task m) as [t|]; [|reflexivity].
    destruct (nth_error (bufs m) t); cbn; [apply upd_length|reflexivity].
  - cbn. apply map_length.
Qed.
Lemma mtu_step_len (m : mt (rb Z)) p : length (bufs (fst (mtu_step m p))) = length (bufs m).
Proof.
  destruct p as [t|x|pos idxs]; cbn [mtu_step].
  - unfold mt_select. destruct (_ && _); reflexivity.
  - unfold mt_add. destruct (nth_error (bufs m) (selected m)); cbn; [apply upd_length|reflexivity].
  - unfold mt_choose. cbn. destruct (nth_error (active m) pos) as [t|]; cbn; [|reflexivity].
    destruct (nth_error (bufs m) t) as [b|]; reflexivity.
Qed.

(** MultiTaskReplayBuffer over LAP *)
Definition mtl_load_save_id := mt_load_save_id lap_enc lap_dec lap_dec_enc.
Definition mtl_reload_continuation :=
  mt_reload_continuation lap_enc lap_dec lap_dec_enc mt_step mop_batch_of.
Definition mtl_reload_image :=
  mt_reload_image_continuation lap_enc lap_dec lap_dec_enc lap_enc_dec mt_step mop_batch_of.
Definition mtl_crash_point := mt_crash_point lap_enc lap_dec lap_dec_enc mt_step mop_batch_of.
(** MultiTaskReplayBuffer over ReplayBuffer *)
Definition mtu_load_save_id := mt_load_save_id rb_enc rb_dec rb_dec_enc.
Definition mtu_reload_continuation :=
  mt_reload_continuation rb_enc rb_dec rb_dec_enc mtu_step uop_batch_of.
Definition mtu_reload_image :=
  mt_reload_image_continuation rb_enc rb_dec rb_dec_enc rb_enc_dec mtu_step uop_batch_of.
Definition mtu_crash_point := mt_crash_point rb_enc rb_dec rb_dec_enc mtu_step uop_batch_of.

(** On the BufferRun traces: every core state of the wrapper, every key list. *)
Definition mt_fresh {L} (ks : list key) (m : mt L) : mt (live L) :=
  {| bufs := map (fresh ks) (bufs m); selected := selected m; active := active m;
     sampled_task := sampled_task m |}.
Lemma mt_core_fresh {L} ks (m : mt L) : mt_core (mt_fresh ks m) = m.
Proof.
  destruct m as [b s a t]. unfold mt_core, mt_fresh. cbn. rewrite map_map. cbn.
  rewrite map_id. reflexivity.
Qed.
Theorem mt_trace_reload (m : mt (lap Z)) ks ops :
  mt_trace (mt_core (mt_load lap_dec (mt_save lap_enc (mt_fresh ks m)))) ops = mt_trace m ops.
Proof.
  destruct (mt_load_rebuilds_batch lap_enc lap_dec lap_dec_enc (mt_fresh ks m)) as (_ & _ & E).
  rewrite E, mt_core_fresh. reflexivity.
Qed.
Theorem mtu_trace_reload (m : mt (rb Z)) ks ops :
  mtu_trace (mt_core (mt_load rb_dec (mt_save rb_enc (mt_fresh ks m)))) ops = mtu_trace m ops.
Proof.
  destruct (mt_load_rebuilds_batch rb_enc rb_dec rb_dec_enc (mt_fresh ks m)) as (_ & _ & E).
  rewrite E, mt_core_fresh. reflexivity.
Qed.

(* ------------------------------------------------------------------ *)
(** ** necessity: an image that forgets one behaviour-relevant attribute does not
    satisfy [reload_continuation].  The witnesses are reachable states (the state
    after a concrete history from the constructor). *)
Definition after_rb (N : nat) (h : list rop) : rb Z := fst (run rb_step (rb_init N) h).
Definition after_lap (strat : bool) (N : nat) (h : list lapop) : lap Z :=
  fst (run (lap_step strat) (lap_init N) h).
Definition after_sb (N H : nat) (h : list srow) : sb := fst (run (sb_step []) (sb_init N H) h).
Definition after_sbp (N H : nat) (h : list pop) : sbp := fst (run sbp_step (sbp_init N H) h).
Definition after_mt (N n : nat) (h : list mop) : mt (lap Z) := fst (run mt_step (mt_lap_init N n) h).
Definition step_row (k : Z) : srow :=
  {| r_obs := k; r_act := k; r_rew := k; r_nobs := (k + 1)%Z; r_term := false; r_trunc := false |}.

Ltac witness_differs := cbv zeta; let H := fresh "H" in intro H; vm_compute in H; discriminate H.

Lemma rb_insert_idx_field_needed :
  exists h ops, let s := after_rb 3 h in rb_trace (forget_ins s) ops <> rb_trace s ops.
Proof.
  exists [RAdd 10%Z; RAdd 11%Z], [RAdd 12%Z; RSample [0]].
  witness_differs.
Qed.
Lemma rb_current_len_field_needed :
  exists h ops, let s := after_rb 3 h in rb_trace (forget_len s) ops <> rb_trace s ops.
Proof.
  exists [RAdd 10%Z; RAdd 11%Z], [RSample [0]].
  witness_differs.
Qed.
Lemma lap_maxp_field_needed :
  exists strat h ops, let s := after_lap strat 4 h in
    lap_trace strat (forget_maxp s) ops <> lap_trace strat s ops.
Proof.
  exists false, [LAdd 1%Z; LSample [1 # 2]%Q; LUpdate [4 # 1]%Q], [LAdd 2%Z].
  witness_differs.
Qed.
Lemma lap_sampled_field_needed :
  exists strat h ops, let s := after_lap strat 4 h in
    lap_trace strat (forget_sampled s) ops <> lap_trace strat s ops.
Proof.
  exists false, [LAdd 1%Z; LAdd 2%Z; LSample [3 # 4]%Q], [LUpdate [5 # 1]%Q].
  witness_differs.
Qed.
Lemma per_sampled_field_needed :
  exists h ops, let s := after_lap true 4 h in
    lap_trace true (forget_sampled s) ops <> lap_trace true s ops.
Proof.
  exists [LAdd 1%Z; LAdd 2%Z; LSample [3 # 4]%Q], [LUpdateScalar (5 # 1)%Q].
  witness_differs.
Qed.
Lemma lap_priority_field_needed :
  exists strat h ops, let s := after_lap strat 4 h in
    lap_trace strat (forget_prio s) ops <> lap_trace strat s ops.
Proof.
  exists false, [LAdd 1%Z; LAdd 2%Z], [LReset].
  witness_differs.
Qed.
Lemma sb_ept_field_needed :
  exists h hs rows, let s := after_sb 6 2 h in
    sb_trace (forget_ept s) hs rows <> sb_trace s hs rows.
Proof.
  exists [step_row 0; step_row 1], [1], [step_row 2].
  witness_differs.
Qed.
Lemma sb_mask_field_needed :
  exists h hs rows, let s := after_sb 6 2 h in
    sb_trace (forget_mask s) hs rows <> sb_trace s hs rows.
Proof.
  exists [step_row 0; step_row 1; step_row 2], [1], [step_row 3].
  witness_differs.
Qed.
Lemma sbp_mask_field_needed :
  exists h ops, let s := after_sbp 6 2 h in
    sbp_trace (forget_mask_p s) ops <> sbp_trace s ops.
Proof.
  exists [PAdd (step_row 0); PAdd (step_row 1); PAdd (step_row 2)], [PSample [1 # 2]%Q 1].
  witness_differs.
Qed.
Lemma mt_active_field_needed :
  exists h ops, let s := after_mt 3 2 h in mt_trace (forget_active s) ops <> mt_trace s ops.
Proof.
  exists [MAdd 1%Z], [MSample 0 [1 # 2]%Q].
  witness_differs.
Qed.
Lemma mt_sampled_task_field_needed :
  exists h ops, let s := after_mt 3 2 h in mt_trace (forget_sampled_task s) ops <> mt_trace s ops.
Proof.
  exists [MAdd 1%Z; MSample 0 [1 # 2]%Q], [MUpdate [3 # 1]%Q].
  witness_differs.
Qed.
Lemma mt_selected_field_needed :
  exists h ops, let s := after_mt 3 2 h in mt_trace (forget_selected s) ops <> mt_trace s ops.
Proof.
  exists [MSelect 1%Z; MAdd 1%Z], [MAdd 2%Z].
  witness_differs.
Qed.
(** The rebuilt Batch type is behaviour-relevant too: a load that did not rebuild it
    (here: an empty field list) changes what a sampling call returns. *)
Lemma batch_rebuild_needed :
  exists ks N h ops,
    let o := fst (run rb_lstep (rb_live_init ks N) h) in
    let bad := {| l_keys := l_keys o; l_batch := []; l_core := l_core o |} in
    snd (run rb_lstep bad ops) <> snd (run rb_lstep o ops).
Proof.
  exists [0; 1], 2, [RAdd 7%Z], [RSample [0]].
  witness_differs.
Qed.

(* ------------------------------------------------------------------ *)
(** ** parameter trees *)
Section TreeProofs.
  Context {V G : Type}.
  Notation tree := (tree V).
  Notation nmodule := (nmodule V G).

  Lemma path_eqb_refl p : path_eqb p p = true.
  Proof. apply keys_eqb_refl. Qed.
  Lemma path_eqb_eq p q : path_eqb p q = true -> p = q.
  Proof. apply keys_eqb_eq. Qed.

  Lemma lookup_in (file : tree) : forall p v,
    NoDup (map fst file) -> In (p, v) file -> lookup p file = Some v.
  Proof.
    induction file as [|[q w] r IH]; intros p v ND Hin; [contradiction|].
    cbn [lookup]. cbn [map fst] in ND. inversion ND as [|? ? Hq ND']; subst.
    destruct Hin as [E|Hin].
    - injection E as -> ->. rewrite path_eqb_refl. reflexivity.
    - destruct (path_eqb p q) eqn:E.
      + apply path_eqb_eq in E. subst q. exfalso. apply Hq.
        change p with (fst (p, v)). apply in_map, Hin.
      + apply IH; assumption.
  Qed.

  Lemma orbax_restore_ok (file : tree) : NoDup (map fst file) ->
    forall t target : tree, incl t file -> map fst target = map fst t ->
    orbax_restore file target = Some t.
  Proof.
    intros ND t. induction t as [|[p v] r IH]; intros [|[q w] tg] Hin Hp; cbn in Hp; try discriminate.
    - reflexivity.
    - injection Hp as -> Hp. cbn [orbax_restore].
      rewrite (lookup_in file p v ND) by (apply Hin; left; reflexivity).
      rewrite (IH tg) by (try exact Hp; intros x Hx; apply Hin; right; exact Hx).
      reflexivity.
  Qed.

  (** pickle helper: split / dump / load / merge *)
  Theorem tree_roundtrip_pickle (m : nmodule) : load_pickle (save_pickle m) (m_graph m) = m.
  Proof. destruct m; reflexivity. Qed.

  (** Orbax: save(nnx.state(model)); restore into the state of a fresh module of the
      same architecture; nnx.update. *)
  Theorem tree_roundtrip_orbax (m fresh_m : nmodule) :
    NoDup (map fst (m_params m)) ->
    m_graph fresh_m = m_graph m ->
    map fst (m_params fresh_m) = map fst (m_params m) ->
    orbax_reload (orbax_save m) fresh_m = Some m.
  Proof.
    intros ND Hg Hp. unfold orbax_reload, orbax_save, nnx_state.
    rewrite (orbax_restore_ok _ ND (m_params m)) by (try exact Hp; apply incl_refl).
    cbn [option_map]. unfold nnx_update. rewrite Hg. destruct m; reflexivity.
  Qed.

  (** a file that lacks a leaf of the target is rejected *)
  Lemma orbax_restore_missing (file target : tree) p v :
    In (p, v) target -> lookup p file = None -> orbax_restore file target = None.
  Proof.
    induction target as [|[q w] r IH]; intros Hin Hl; [contradiction|].
    cbn [orbax_restore]. destruct Hin as [E|Hin].
    - injection E as -> ->. rewrite Hl. reflexivity.
    - rewrite (IH Hin Hl). destruct (lookup q file); reflexivity.
  Qed.

  (** restore_checkpoint helper *)
  Theorem tree_roundtrip_restore_checkpoint (m model : nmodule) :
    NoDup (map fst (m_params m)) ->
    m_graph model = m_graph m ->
    map fst (m_params model) = map fst (m_params m) ->
    restore_checkpoint (orbax_save m) model = Some m.
  Proof.
    intros ND Hg Hp. unfold restore_checkpoint, orbax_save, nnx_state, nnx_split.
    rewrite (orbax_restore_ok _ ND (m_params m)) by (try exact Hp; apply incl_refl).
    cbn [option_map fst]. unfold nnx_merge. rewrite Hg. destruct m; reflexivity.
  Qed.

  Lemma tree_eq_of_leaves (t1 : tree) : forall t2 : tree,
    map fst t1 = map fst t2 -> map snd t1 = map snd t2 -> t1 = t2.
  Proof.
    induction t1 as [|[p v] r IH]; intros [|[q w] r2] H1 H2; cbn in *; try discriminate; [reflexivity|].
    injection H1 as -> H1. injection H2 as -> H2. rewrite (IH r2 H1 H2). reflexivity.
  Qed.

  (** extensionality: the forward function sees only graph, paths and leaves *)
  Theorem tree_ext {X Y : Type} (fwd : G -> tree -> X -> Y) (g : G) (t1 t2 : tree) :
    map fst t1 = map fst t2 -> map snd t1 = map snd t2 -> forall x, fwd g t1 x = fwd g t2 x.
  Proof. intros H1 H2 x. rewrite (tree_eq_of_leaves t1 t2 H1 H2). reflexivity. Qed.

  (** same outputs for the same inputs after each of the three reload paths *)
  Theorem reload_same_outputs {X Y : Type} (fwd : G -> tree -> X -> Y) (m fresh_m : nmodule) :
    NoDup (map fst (m_params m)) ->
    m_graph fresh_m = m_graph m ->
    map fst (m_params fresh_m) = map fst (m_params m) ->
    let out (k : nmodule) x := fwd (m_graph k) (m_params k) x in
    (forall x, out (load_pickle (save_pickle m) (m_graph fresh_m)) x = out m x) /\
    (forall x, option_map (fun k => out k x) (orbax_reload (orbax_save m) fresh_m) = Some (out m x)) /\
    (forall x, option_map (fun k => out k x) (restore_checkpoint (orbax_save m) fresh_m) = Some (out m x)).
  Proof.
    intros ND Hg Hp out. repeat split; intro x.
    - rewrite Hg, tree_roundtrip_pickle. reflexivity.
    - rewrite (tree_roundtrip_orbax m fresh_m ND Hg Hp). reflexivity.
    - rewrite (tree_roundtrip_restore_checkpoint m fresh_m ND Hg Hp). reflexivity.
  Qed.
End TreeProofs.

(** restore without a target (the code before the repair) permutes the layers of a module with
    more than ten list entries: '10' sorts before '2' *)
Definition chain (n : nat) : tree Z := map (fun i => ([i], Z.of_nat i)) (seq 0 n).
Lemma restore_untargeted_refuted :
  exists m model : nmodule Z unit,
    NoDup (map fst (m_params m)) /\ m_graph model = m_graph m /\ map fst (m_params model) = map fst (m_params m) /\
    restore_untargeted (orbax_save m) model <> m.
Proof.
  exists {| m_graph := tt; m_params := chain 11 |}, {| m_graph := tt; m_params := map (fun e => (fst e, 0%Z)) (chain 11) |}.
  split; [|split; [reflexivity|split; [reflexivity|]]].
  - vm_compute. repeat (constructor; [cbn; intuition discriminate|]). constructor.
  - vm_compute. discriminate.
Qed.
(** ... while for at most ten entries it happens to be the identity (why the defect stayed unseen) *)
Lemma restore_untargeted_small : forall n, n <= 10 ->
  restore_untargeted (orbax_save {| m_graph := tt; m_params := chain n |}) {| m_graph := tt; m_params := chain n |}
  = {| m_graph := tt; m_params := chain n |}.
Proof.
  intros n Hn. do 11 (destruct n as [|n]; [vm_compute; reflexivity|]). lia.
Qed.

(** the hypotheses are satisfiable *)
Example tree_roundtrip_example :
  let m := {| m_graph := tt; m_params := [([0; 0], 5%Z); ([0; 1], 7%Z); ([1], 9%Z)] |} in
  let f := {| m_graph := tt; m_params := [([0; 0], 0%Z); ([0; 1], 0%Z); ([1], 0%Z)] |} in
  orbax_reload (orbax_save m) f = Some m.
Proof. vm_compute. reflexivity. Qed.

(* ------------------------------------------------------------------ *)
(** ** checkpoint directory: every listed path restores to what was written under it *)
Section CkDir.
Context {V : Type}.
Local Open Scope Z_scope.

Lemma name_eqb_refl (k : ck_name) : name_eqb k k = true.
Proof. unfold name_eqb. rewrite !Z.eqb_refl. reflexivity. Qed.

Lemma name_eqb_epoch_neq (s1 s2 e1 e2 : Z) : e1 <> e2 -> name_eqb (s1, e1) (s2, e2) = false.
Proof.
  intros H. unfold name_eqb. cbn [fst snd].
  destruct (Z.eqb_spec e1 e2) as [E|E]; [contradiction|]. apply andb_false_r.
Qed.

(** invariant of the repository's naming rule: every name in the directory and in the path list carries
    an epoch in 1..ck_epoch, and the listed paths restore, in order, to the saved values *)
Definition ck_inv (l : cklog V) (saved : list V) : Prop :=
  0 <= ck_epoch l /\
  (forall k v, In (k, v) (ck_dir l) -> snd k <= ck_epoch l) /\
  (forall k, In k (ck_paths l) -> snd k <= ck_epoch l) /\
  map (ck_lookup (ck_dir l)) (ck_paths l) = map Some saved.

Lemma ck_lookup_fresh (d : list (ck_name * V)) (k : ck_name) (e : Z) :
  (forall k' v, In (k', v) d -> snd k' <= e) -> e < snd k -> ck_lookup d k = None.
Proof.
  induction d as [|[k' v] d IH]; intros Hd Hk; [reflexivity|].
  cbn [ck_lookup]. destruct k' as [s' e'], k as [s e0]. cbn [snd] in *.
  rewrite name_eqb_epoch_neq.
  - apply IH; [intros k'' v'' Hin; apply (Hd k'' v''); right; exact Hin | exact Hk].
  - pose proof (Hd (s', e') v (or_introl eq_refl)) as Hle. cbn [snd] in Hle. lia.
Qed.

Lemma ck_record_inv (l : cklog V) (saved : list V) (step : Z) (save : bool) (v : V) :
  ck_inv l saved ->
  ck_inv (ck_record name_step_epoch l (step, save, v)) (if save then saved ++ [v] else saved).
Proof.
  intros (He & Hd & Hp & Hr). unfold ck_inv, ck_record. destruct save; cbn [ck_dir ck_epoch ck_paths].
  - repeat split.
    + lia.
    + intros k v' [Heq|Hin]; [inversion Heq; subst; cbn [name_step_epoch snd]; lia | specialize (Hd k v' Hin); lia].
    + intros k Hin. apply in_app_or in Hin. destruct Hin as [Hin|[Heq|[]]];
        [specialize (Hp k Hin); lia | subst; cbn [name_step_epoch snd]; lia].
    + rewrite !map_app. cbn [map]. f_equal.
      * rewrite <- Hr. apply map_ext_in. intros k Hin. cbn [ck_lookup].
        destruct k as [s e]. unfold name_step_epoch. rewrite name_eqb_epoch_neq; [reflexivity|].
        specialize (Hp (s, e) Hin). cbn [snd] in Hp. lia.
      * cbn [ck_lookup]. rewrite name_eqb_refl. reflexivity.
  - repeat split.
    + lia.
    + intros k v' Hin. specialize (Hd k v' Hin). lia.
    + intros k Hin. specialize (Hp k Hin). lia.
    + exact Hr.
Qed.

Lemma ck_fold_inv (h : list (Z * bool * V)) : forall (l : cklog V) (saved : list V),
  ck_inv l saved ->
  ck_inv (fold_left (ck_record name_step_epoch) h l) (saved ++ ck_saved h).
Proof.
  induction h as [|[[step save] v] h IH]; intros l saved Hinv.
  - cbn. rewrite app_nil_r. exact Hinv.
  - cbn [fold_left]. pose proof (ck_record_inv l saved step save v Hinv) as Hstep.
    specialize (IH _ _ Hstep). unfold ck_saved in *. cbn [filter fst snd map].
    destruct save; cbn [map snd]; [rewrite <- app_assoc in IH; exact IH | exact IH].
Qed.

(** every history of record_epoch calls - any steps, repeated or decreasing, any save pattern *)
Theorem ck_history_restores (h : list (Z * bool * V)) :
  ck_restore_all name_step_epoch h = map Some (ck_saved h).
Proof.
  unfold ck_restore_all, ck_run.
  assert (Hi : ck_inv (@ck_init V) []).
  { unfold ck_inv, ck_init; cbn. repeat split; try lia; intros; contradiction. }
  pose proof (ck_fold_inv h ck_init [] Hi) as (_ & _ & _ & Hr). exact Hr.
Qed.

(** the number of listed paths is the number of saves (nothing is dropped or listed twice) *)
Theorem ck_history_paths_length (naming : Z -> Z -> ck_name) (h : list (Z * bool * V)) :
  length (ck_paths (ck_run naming h)) = length (ck_saved h).
Proof.
  unfold ck_run. change (length (ck_saved h)) with (length (ck_paths (@ck_init V)) + length (ck_saved h))%nat.
  generalize (@ck_init V). induction h as [|[[step save] v] h IH]; intros l.
  - cbn. lia.
  - cbn [fold_left]. rewrite IH. unfold ck_record, ck_saved. cbn [filter fst snd].
    destruct save; cbn [ck_paths map length]; [rewrite app_length; cbn; lia | lia].
Qed.
End CkDir.

(** without the epoch in the name, a step value that comes back (a logger reused for a second training call)
    overwrites the earlier checkpoint: its listed path restores to the later parameters *)
Theorem ck_step_only_refuted :
  exists h : list (Z * bool * Z), ck_restore_all name_step_only h <> map Some (ck_saved h).
Proof. exists [(2, true, 10); (4, true, 11); (2, true, 12)]%Z. vm_compute. discriminate. Qed.

Example ck_history_nonvacuous :
  ck_restore_all name_step_epoch [(2, true, 10); (3, false, 99); (2, true, 12); (1, true, 13)]%Z = [Some 10; Some 12; Some 13]%Z.
Proof. vm_compute. reflexivity. Qed.
