(** C12 — actor objectives have the documented value and gradient (over R and dual R). *)
From Coq Require Import Reals List Bool Arith Lra Lia.
From RLV Require Import Model.Num Model.Tensor Model.Blocks Model.Losses Model.Dual Model.Actor
  Proofs.RingProofs Proofs.WeightsProofs Proofs.TabularProofs Proofs.BlocksProofs Proofs.LossesProofs.
Import ListNotations.
Local Open Scope R_scope.

Notation D := (R * R)%type.

(* ------------------------------------------------------------------ *)
(** ** sums and means of dual numbers *)
Lemma dual_nsum_from (l : list D) : forall a : D,
  fold_left nadd l a = (fst a + rsum (map fst l), snd a + rsum (map snd l)).
Proof.
  induction l as [|x t IH]; intro a; cbn [fold_left map]; unfold rsum in *; cbn [fold_right].
  - destruct a; cbn. f_equal; lra.
  - rewrite IH. cbn [nadd dual_ops fst snd R_ops]. f_equal; lra.
Qed.
Lemma dual_nsum (l : list D) : nsum l = (rsum (map fst l), rsum (map snd l)).
Proof. unfold nsum. rewrite dual_nsum_from. cbn. f_equal; lra. Qed.

Lemma dual_nofnat n : nofnat (F := D) n = (INR n, 0).
Proof. unfold nofnat. cbn [nofQ dual_ops]. fold (nofnat (F := R) n). rewrite nofnat_R. reflexivity. Qed.

Lemma dual_nmean (l : list D) : l <> [] ->
  nmean l = (rsum (map fst l) / INR (length l), rsum (map snd l) / INR (length l)).
Proof.
  intro Hne. unfold nmean. rewrite dual_nsum, dual_nofnat. cbn [ndiv nmul nsub dual_ops fst snd R_ops].
  assert (Hn : INR (length l) <> 0) by (apply not_0_INR; destruct l; [congruence|discriminate]).
  apply f_equal2; [reflexivity|]. field. exact Hn.
Qed.

Definition rmean (l : list R) : R := rsum l / INR (length l).
Lemma nmean_R (l : list R) : nmean l = rmean l.
Proof. unfold nmean, rmean. rewrite nsum_R, nofnat_R. reflexivity. Qed.

Lemma len_dual_combine (l t : list R) : @length (@dual R) (combine l t) = Nat.min (length l) (length t).
Proof. apply combine_length. Qed.

Lemma concat_singletons (v : list R) : concat (map (fun x : R => [x]) v) = v.
Proof. induction v as [|a v IH]; cbn; [reflexivity|f_equal; exact IH]. Qed.

(* ------------------------------------------------------------------ *)
(** ** policy-gradient pseudo-loss *)
Theorem pg_value (w l : list R) : length w = length l ->
  pg_pseudo_loss (T1 w) (T1 l) = Ok (- nmean (zipw Rmult w l)).
Proof.
  intro H. unfold pg_pseudo_loss, same_shape. cbn [shape]. rewrite H.
  destruct (list_eq_dec Nat.eq_dec [length l] [length l]) as [_|Hne]; [|congruence].
  unfold tmul. rewrite bop_T1 by exact H. reflexivity.
Qed.

(** shapes (N,) against (N,1) are rejected loudly, never broadcast *)
Theorem pg_shape_mismatch_rejects (w l : list R) : (2 <= length w)%nat -> length w = length l ->
  pg_pseudo_loss (T1 w) (col l) = Err.
Proof.
  intros HN H. unfold pg_pseudo_loss, same_shape, col. cbn [shape]. rewrite map_length.
  destruct l as [|a l]; [cbn in H; lia|]. cbn [map length].
  destruct (list_eq_dec Nat.eq_dec [length w] [S (length l); 1%nat]) as [E|_]; [discriminate|reflexivity].
Qed.

(** The gradient treats the weights as constants: with tangents t_i on log pi and none on the
    weights, the directional derivative of the pseudo-loss is -mean(w_i * t_i). *)
Theorem pg_gradient (w l t : list R) : w <> [] -> length w = length l -> length l = length t ->
  pg_pseudo_loss (T1 (map dconst w)) (T1 (combine l t)) =
  Ok (- rmean (zipw Rmult w l), - rmean (zipw Rmult w t)).
Proof.
  intros Hne H1 H2.
  assert (Hs : same_shape (T1 (map dconst w)) (T1 (combine l t)) = true).
  { unfold same_shape. cbn [shape].
    match goal with |- (if ?c then _ else _) = _ => destruct c as [_|Hn] end; [reflexivity|].
    exfalso. apply Hn. f_equal. rewrite map_length. pose proof (combine_length l t) as Hc.
    transitivity (Nat.min (length l) (length t)); [lia|symmetry; exact Hc]. }
  unfold pg_pseudo_loss. rewrite Hs.
  unfold tmul. cbn [bop]. rewrite bzip_same by (rewrite map_length, len_dual_combine; lia). cbn [rmap rbind].
  unfold tmean. cbn [flatten].
  set (P := zipw nmul (map dconst w) (combine l t)).
  assert (HP : P <> []).
  { unfold P, zipw. destruct w as [|w0 w]; [congruence|]. destruct l as [|l0 l]; [cbn in H1; lia|].
    destruct t as [|t0 t]; [cbn in H2; lia|]. discriminate. }
  rewrite dual_nmean by exact HP.
  assert (Hlen : @length (R * R) P = length w).
  { unfold P. rewrite zipw_length, map_length. rewrite ?len_dual_combine, ?combine_length. lia. }
  assert (Hf : map fst P = zipw Rmult w l /\ map snd P = zipw Rmult w t).
  { unfold P, zipw, dconst. clear HP Hlen Hne Hs P. revert l t H1 H2.
    induction w as [|w0 w IH]; intros [|l0 l] [|t0 t] H1 H2; cbn in *; try lia; try (split; reflexivity).
    destruct (IH l t ltac:(lia) ltac:(lia)) as [E1 E2]. split; f_equal; auto; lra. }
  destruct Hf as [E1 E2]. rewrite E1, E2, Hlen. cbn [nneg dual_ops fst snd R_ops].
  unfold rmean, zipw. rewrite !map_length, !combine_length. replace (Nat.min (length w) (length l)) with (length w) by lia.
  replace (Nat.min (length w) (length t)) with (length w) by lia. reflexivity.
Qed.

(* ------------------------------------------------------------------ *)
(** ** PPO *)
Lemma dual_leb (a b : D) : nleb a b = Rleb (fst a) (fst b).
Proof. reflexivity. Qed.

(** At unchanged policy parameters (ratio = 1) the surrogate of one sample has value A and
    directional derivative A * t: the gradient of the unclipped surrogate ratio * A. *)
Theorem ppo_term_at_ratio_one (c lp t A : R) : 0 < c ->
  ppo_term (F := D) (c, 0) (lp, t) (lp, 0) (A, 0) = (A, t * A).
Proof.
  intro Hc. unfold ppo_term, nclip, nmin, nmax. cbn [nsub nexp nmul nadd nunit dual_ops fst snd R_ops].
  rewrite !dual_leb. cbn [fst snd]. replace (lp - lp) with 0 by ring. rewrite exp_0.
  assert (E1 : Rleb 1 (1 - c) = false) by (apply Rleb_false; lra). rewrite E1. cbn [fst snd].
  assert (E2 : Rleb 1 (1 + c) = true) by (apply Rleb_true; lra). rewrite E2. cbn [fst snd].
  assert (E3 : Rleb (1 * A) (1 * A) = true) by (apply Rleb_true; lra). rewrite E3.
  f_equal; ring.
Qed.

(** A sample whose ratio is clipped on the side its advantage favours gets zero gradient. *)
Theorem ppo_term_clipped_zero_grad (c lp old t A : R) : 0 < c ->
  (1 + c < exp (lp - old) /\ 0 < A) \/ (exp (lp - old) < 1 - c /\ A < 0) ->
  snd (ppo_term (F := D) (c, 0) (lp, t) (old, 0) (A, 0)) = 0.
Proof.
  intros Hc Hcase. unfold ppo_term, nclip, nmin, nmax. cbn [nsub nexp nmul nadd nunit dual_ops fst snd R_ops].
  rewrite !dual_leb. cbn [fst snd]. set (r := exp (lp - old)) in *.
  destruct Hcase as [[Hr HA]|[Hr HA]].
  - assert (E1 : Rleb r (1 - c) = false) by (apply Rleb_false; lra). rewrite E1. cbn [fst snd].
    assert (E2 : Rleb r (1 + c) = false) by (apply Rleb_false; lra). rewrite E2. cbn [fst snd].
    assert (E3 : Rleb (r * A) ((1 + c) * A) = false) by (apply Rleb_false; nra). rewrite E3. cbn [nmul nadd nsub nunit nzero dual_ops fst snd R_ops]. ring.
  - assert (E1 : Rleb r (1 - c) = true) by (apply Rleb_true; lra). rewrite E1. cbn [fst snd].
    assert (E2 : Rleb (1 - c) (1 + c) = true) by (apply Rleb_true; lra). rewrite E2. cbn [fst snd].
    assert (E3 : Rleb (r * A) ((1 - c) * A) = false) by (apply Rleb_false; nra). rewrite E3. cbn [nmul nadd nsub nunit nzero dual_ops fst snd R_ops]. ring.
Qed.

(** the whole policy term at ratio one: value -mean A, derivative -mean(A_i t_i) *)
Theorem ppo_grad_at_ratio_one (c : R) (lp t A : list R) : 0 < c -> lp <> [] ->
  length lp = length t -> length t = length A ->
  ppo_policy_loss (F := D) (c, 0) (combine lp t) (map dconst lp) (map dconst A) =
  (- rmean A, - rmean (zipw Rmult t A)).
Proof.
  intros Hc Hne H1 H2. unfold ppo_policy_loss.
  set (P := map _ _).
  assert (HP : P = combine A (zipw Rmult t A)).
  { unfold P, zipw, dconst. clear P Hne. revert t A H1 H2.
    induction lp as [|l0 lp IH]; intros [|t0 t] [|a0 A] H1 H2; cbn [combine map] in *; try (cbn in *; lia); try reflexivity.
    cbn [fst snd]. rewrite ppo_term_at_ratio_one by exact Hc. f_equal. apply IH; cbn in *; lia. }
  rewrite HP.
  assert (Hl : length (zipw Rmult t A) = length A) by (unfold zipw; rewrite map_length, combine_length; lia).
  assert (Hn : combine A (zipw Rmult t A) <> []).
  { destruct A as [|a0 A]; [destruct lp; [congruence|cbn in *; lia]|]. destruct (zipw Rmult t (a0 :: A)); [cbn in Hl; lia|discriminate]. }
  rewrite dual_nmean by exact Hn. rewrite combine_length, Hl, Nat.min_id.
  assert (E1 : map fst (combine A (zipw Rmult t A)) = A).
  { clear -Hl. revert Hl. generalize (zipw Rmult t A) as Z. induction A as [|a A IH]; intros [|z Z] Hl; cbn in *; try lia; try reflexivity. f_equal. apply IH. lia. }
  assert (E2 : map snd (combine A (zipw Rmult t A)) = zipw Rmult t A).
  { clear -Hl. revert Hl. generalize (zipw Rmult t A) as Z. intro Z. revert A. induction Z as [|z Z IH]; intros [|a A] Hl; cbn in *; try lia; try reflexivity. f_equal. apply IH. lia. }
  rewrite E1, E2. cbn [nneg dual_ops fst snd R_ops]. unfold rmean. rewrite Hl. reflexivity.
Qed.

(** value term: per-sample squared error between returns and predicted values, for critic
    outputs of shape (N,) and (N,1) alike *)
Theorem ppo_value_term (returns v : list R) : length returns = length v ->
  ppo_value_loss returns (T1 v) = Ok (mse_spec returns v) /\
  ppo_value_loss returns (col v) = Ok (mse_spec returns v).
Proof.
  intro H. unfold ppo_value_loss. cbn [flatten col].
  rewrite concat_singletons. split; apply mse_T1; exact H.
Qed.

(* ------------------------------------------------------------------ *)
(** ** deterministic policy gradient, SAC actor and temperature *)
Theorem dpg_value (q : list R) : dpg_loss (col q) = - nmean q.
Proof.
  unfold dpg_loss, tmean. cbn [flatten col].
  rewrite concat_singletons. reflexivity.
Qed.

Theorem sac_actor_value (alpha : R) (lp q : list R) : (2 <= length q)%nat -> length lp = length q ->
  sac_actor_loss alpha (T1 lp) (col q) = Ok (nmean (zipw (fun l qv => alpha * l - qv) lp q)).
Proof.
  intros HN H. unfold sac_actor_loss. rewrite squeeze_col by exact HN. cbn [tmap]. unfold tsub.
  rewrite bop_T1 by (rewrite map_length; exact H). cbn [rbind]. f_equal. unfold tmean. cbn [flatten]. f_equal.
  unfold zipw. clear HN. revert q H. induction lp as [|l lp IH]; intros [|q0 q] H; cbn in *; try lia; try reflexivity.
  f_equal. apply IH. lia.
Qed.

(** Temperature loss: d/d(log alpha) = -alpha * mean(log pi + target). A gradient step
    therefore raises alpha exactly when the sampled entropy estimate -mean(log pi) is below
    the target entropy. *)
Theorem sac_alpha_gradient (la target : R) (lp : list R) : lp <> [] ->
  snd (sac_exploration_loss (F := D) (la, 1) (target, 0) (map dconst lp)) = - exp la * (rmean lp + target).
Proof.
  intro Hne. unfold sac_exploration_loss.
  set (P := map _ _).
  assert (HP : P = map (fun l => (- exp la * (l + target), - exp la * (l + target))) lp).
  { unfold P, dconst. rewrite map_map. apply map_ext. intro l.
    cbn [nneg nexp nmul nadd nzero dual_ops fst snd R_ops]. f_equal; ring. }
  rewrite HP. rewrite dual_nmean by (destruct lp; [congruence|discriminate]).
  cbn [snd]. rewrite !map_map, map_length. cbn [snd].
  assert (Hn : INR (length lp) <> 0) by (apply not_0_INR; destruct lp; [congruence|discriminate]).
  unfold rmean.
  assert (G : forall l0, rsum (map (fun x => - exp la * (x + target)) l0) = - exp la * (rsum l0 + INR (length l0) * target)).
  { induction l0 as [|x l0 IH]; [unfold rsum; cbn; ring|].
    change (rsum (map (fun x0 => - exp la * (x0 + target)) (x :: l0))) with
      (- exp la * (x + target) + rsum (map (fun x0 => - exp la * (x0 + target)) l0)).
    rewrite IH. change (rsum (x :: l0)) with (x + rsum l0). cbn [length]. rewrite S_INR. ring. }
  rewrite G. field. exact Hn.
Qed.

Corollary alpha_rises_iff_entropy_low (la target : R) (lp : list R) : lp <> [] ->
  (snd (sac_exploration_loss (F := D) (la, 1) (target, 0) (map dconst lp)) < 0 <-> - rmean lp < target).
Proof.
  intro Hne. rewrite sac_alpha_gradient by exact Hne. pose proof (exp_pos la). split; intro H0; nra.
Qed.

(** update_ppo runs several epochs against the log-probabilities read once before the first update.  Re-reading
    them in every epoch (old = current value, no tangent) makes every epoch look like the first one: a sample that
    the fixed reference clips on its favoured side would keep receiving policy gradient. *)
Theorem ppo_reread_refuted :
  exists c lp old t A : R, 0 < c /\ 1 + c < exp (lp - old) /\ 0 < A /\
    snd (ppo_term (F := D) (c, 0) (lp, t) (old, 0) (A, 0)) = 0 /\
    snd (ppo_term (F := D) (c, 0) (lp, t) (lp, 0) (A, 0)) <> 0.
Proof.
  exists (1 / 5), 1, 0, 1, 1.
  assert (He : 1 + 1 / 5 < exp (1 - 0)).
  { replace (1 - 0) with 1 by ring. pose proof (exp_ineq1 1 ltac:(lra)). lra. }
  split; [lra|]. split; [exact He|]. split; [lra|]. split.
  - apply ppo_term_clipped_zero_grad; [lra|]. left. split; [exact He | lra].
  - rewrite ppo_term_at_ratio_one by lra. cbn [snd]. lra.
Qed.
