(** Proofs about the ring buffer model (C02) and the generic ring lemma shared
    with C04 / C08. *)
From Coq Require Import ZArith List Bool Arith Lia ZifyBool.
From RLV Require Import Model.Buffers.
Import ListNotations.
Ltac Zify.zify_post_hook ::= Z.to_euclidean_division_equations.

(* ---- upd ---- *)
Lemma upd_length {A} (l : list A) i x : length (upd l i x) = length l.
Proof. revert i; induction l as [|h t IH]; intros [|i]; cbn; auto. Qed.

Lemma nth_upd_same {A} (l : list A) i x d : i < length l -> nth i (upd l i x) d = x.
Proof. revert i; induction l as [|h t IH]; intros [|i] H; cbn in *; try lia; auto. apply IH; lia. Qed.

Lemma nth_upd_other {A} (l : list A) i j x d : i <> j -> nth j (upd l i x) d = nth j l d.
Proof.
  revert i j; induction l as [|h t IH]; intros [|i] [|j] H; cbn; auto; try lia.
Qed.

Lemma nth_upd {A} (l : list A) i j x d :
  nth j (upd l i x) d = if Nat.eqb i j then (if Nat.ltb i (length l) then x else nth j l d) else nth j l d.
Proof.
  destruct (Nat.eqb_spec i j) as [->|Hn].
  - destruct (Nat.ltb_spec j (length l)).
    + apply nth_upd_same; assumption.
    + rewrite !nth_overflow; rewrite ?upd_length; auto.
  - apply nth_upd_other; assumption.
Qed.

Lemma nth_map_in {A B} (f : A -> B) l k d d' : k < length l -> nth k (map f l) d' = f (nth k l d).
Proof. revert k; induction l as [|x t IH]; intros [|k] H; cbn in *; try lia; auto. apply IH; lia. Qed.

Lemma nth_repeat_none {A} (n i : nat) : nth i (repeat (@None A) n) None = None.
Proof. revert i; induction n; intros [|i]; cbn; auto. Qed.

Lemma mod_neq_close a b N : a < b -> b < a + N -> a mod N <> b mod N.
Proof.
  intros H1 H2 E.
  assert (HN : N <> 0) by lia.
  pose proof (Nat.div_mod a N HN) as Ha. pose proof (Nat.div_mod b N HN) as Hb.
  assert (Hle : a / N <= b / N) by (apply Nat.div_le_mono; lia).
  destruct (Nat.eq_dec (a / N) (b / N)) as [Eq|Ne]; [rewrite Eq in Ha; lia|].
  assert (a / N + 1 <= b / N) by lia. nia.
Qed.

(* ---- the ring invariant over the append-only write history W ---- *)
Section RingInv.
  Context {A : Type}.
  Definition RInv (N : nat) (b : rb A) (W : list A) : Prop :=
    cap b = N /\ length (slots b) = N /\ ins b = length W mod N /\
    len b = Nat.min (length W) N /\
    (forall c x, nth_error W c = Some x -> length W <= c + N ->
                 nth (c mod N) (slots b) None = Some x) /\
    (forall i, len b <= i -> nth i (slots b) None = None).

  Lemma rinv_init N : 1 <= N -> RInv N (rb_init N) [].
  Proof.
    intro HN. unfold RInv, rb_init; cbn. rewrite repeat_length.
    repeat split; auto.
    - rewrite Nat.mod_0_l by lia. reflexivity.
    - intros [|c] x H; discriminate.
    - intros i _. apply nth_repeat_none.
  Qed.

  Lemma rinv_add N b W x : 1 <= N -> RInv N b W -> RInv N (rb_add b x) (W ++ [x]).
  Proof.
    intros HN (Hc & Hl & Hi & Hn & Hs & Hu). unfold RInv, rb_add; cbn [cap slots ins len].
    rewrite upd_length, app_length; cbn [length]. rewrite Hc, Hi.
    assert (Hlt : length W mod N < N) by (apply Nat.mod_upper_bound; lia).
    repeat split; auto.
    - rewrite Nat.add_mod_idemp_l by lia. reflexivity.
    - rewrite Hn. lia.
    - intros c y Hy Hrange.
      destruct (Nat.eq_dec c (length W)) as [->|Hne].
      + rewrite nth_error_app2 in Hy by lia. rewrite Nat.sub_diag in Hy. cbn in Hy.
        injection Hy as <-. apply nth_upd_same. lia.
      + assert (Hc' : c < length W).
        { assert (c < length (W ++ [x])) by (apply nth_error_Some; congruence).
          rewrite app_length in *; cbn in *. lia. }
        rewrite nth_error_app1 in Hy by exact Hc'.
        rewrite nth_upd_other.
        * apply Hs; [exact Hy|lia].
        * intro E.
          rewrite ?app_length in Hrange; cbn in Hrange.
          apply (mod_neq_close c (length W) N); lia.
    - intros i Hi'. rewrite Hn in Hi'.
      rewrite nth_upd_other.
      + apply Hu. rewrite Hn. lia.
      + intro E. subst i.
        assert (length W < N) by lia. rewrite Nat.mod_small in Hi' by lia. lia.
  Qed.

  Lemma rinv_fold N h : forall b W, 1 <= N -> RInv N b W -> RInv N (fold_left rb_add h b) (W ++ h).
  Proof.
    induction h as [|x h IH]; intros b W HN HI; cbn [fold_left].
    - rewrite app_nil_r; exact HI.
    - replace (W ++ x :: h) with ((W ++ [x]) ++ h) by (rewrite <- app_assoc; reflexivity).
      apply IH; [exact HN|]. apply rinv_add; assumption.
  Qed.

  Theorem rb_run_inv N (h : list A) : 1 <= N -> RInv N (rb_run N h) h.
  Proof. intro HN. apply (rinv_fold N h (rb_init N) [] HN), rinv_init, HN. Qed.

  (** length = min(n, N) *)
  Theorem rb_len N (h : list A) : 1 <= N -> len (rb_run N h) = Nat.min (length h) N.
  Proof. intro HN. destruct (rb_run_inv N h HN) as (_ & _ & _ & H & _). exact H. Qed.

  Lemma skipn_nth_cons (h : list A) j x : nth_error h j = Some x -> skipn j h = x :: skipn (S j) h.
  Proof.
    revert h; induction j as [|j IH]; intros [|y t] E; cbn in *; try discriminate.
    - injection E as ->. reflexivity.
    - apply IH, E.
  Qed.

  Lemma nth_error_skipn' (l : list A) j k : nth_error (skipn j l) k = nth_error l (j + k).
  Proof. revert l; induction j as [|j IH]; intros [|y t]; cbn; auto. destruct k; reflexivity. Qed.

  (** Ordered contents: reading the slots at (c mod N) for the last min(n,N) write
      positions c, oldest first, yields exactly the most recent min(n,N) additions. *)
  Theorem rb_contents N (h : list A) : 1 <= N ->
    let b := rb_run N h in
    map (fun c => nth (c mod N) (slots b) None) (seq (length h - len b) (len b))
    = map Some (lastn (len b) h).
  Proof.
    intros HN b. destruct (rb_run_inv N h HN) as (_ & _ & _ & Hn & Hs & _). fold b in Hn, Hs.
    unfold lastn. set (k := len b) in *. assert (Hk : k <= length h) by lia.
    assert (HkN : k <= N) by lia. clearbody k. clear Hn.
    assert (G : forall m, m <= k ->
      map (fun c => nth (c mod N) (slots b) None) (seq (length h - m) m) =
      map Some (skipn (length h - m) h)).
    { induction m as [|m IHm]; intro Hm.
      - rewrite Nat.sub_0_r, skipn_all. reflexivity.
      - destruct (nth_error h (length h - S m)) as [x|] eqn:E;
          [|apply nth_error_None in E; lia].
        cbn [seq map]. rewrite (skipn_nth_cons _ _ _ E).
        replace (S (length h - S m)) with (length h - m) by lia.
        rewrite IHm by lia. rewrite (Hs _ x E) by lia. reflexivity. }
    apply G. lia.
  Qed.

  (** Every slot below the reported length holds one of the last min(n,N) additions;
      every slot at or above it was never written (and is never requested, since
      the model draws from [0, len)). *)
  Lemma rinv_slot_sound N (b : rb A) (h : list A) i : 1 <= N -> RInv N b h ->
    i < len b -> exists x, nth i (slots b) None = Some x /\ In x (lastn (len b) h).
  Proof.
    intros HN (_ & _ & _ & Hn & Hs & _) Hi.
    set (n := length h) in *.
    assert (Hex : exists c, n - len b <= c < n /\ c mod N = i).
    { destruct (Nat.le_gt_cases n N) as [Hsmall|Hbig].
      - exists i. split; [lia|]. apply Nat.mod_small. lia.
      - assert (HlenN : len b = N) by lia.
        set (base := n - N).
        exists (base + (i + N - base mod N) mod N). split.
        + assert ((i + N - base mod N) mod N < N) by (apply Nat.mod_upper_bound; lia). lia.
        + rewrite Nat.add_mod by lia. rewrite Nat.mod_mod by lia.
          assert (Hb : base mod N < N) by (apply Nat.mod_upper_bound; lia).
          destruct (Nat.le_gt_cases (base mod N) i) as [Hle|Hgt].
          * replace (i + N - base mod N) with ((i - base mod N) + 1 * N) by lia.
            rewrite Nat.mod_add by lia. rewrite (Nat.mod_small (i - base mod N)) by lia.
            replace (base mod N + (i - base mod N)) with i by lia. apply Nat.mod_small. lia.
          * rewrite (Nat.mod_small (i + N - base mod N)) by lia.
            replace (base mod N + (i + N - base mod N)) with (i + 1 * N) by lia.
            rewrite Nat.mod_add by lia. apply Nat.mod_small. lia. }
    destruct Hex as (c & Hc & Hmod).
    destruct (nth_error h c) as [x|] eqn:E; [|apply nth_error_None in E; fold n in E; lia].
    exists x. split.
    - rewrite <- Hmod. apply Hs; [exact E|fold n; lia].
    - unfold lastn. fold n.
      assert (Hsk : nth_error (skipn (n - len b) h) (c - (n - len b)) = Some x).
      { rewrite nth_error_skipn'. replace (n - len b + (c - (n - len b))) with c by lia. exact E. }
      eapply nth_error_In, Hsk.
  Qed.

  (** Every slot below the reported length holds one of the last min(n,N) additions. *)
  Theorem rb_slot_sound N (h : list A) i : 1 <= N ->
    let b := rb_run N h in
    i < len b -> exists x, nth i (slots b) None = Some x /\ In x (lastn (len b) h).
  Proof. intros HN b Hi. apply (rinv_slot_sound N); [exact HN|apply rb_run_inv; exact HN|exact Hi]. Qed.

  Theorem rb_unwritten N (h : list A) i : 1 <= N ->
    len (rb_run N h) <= i -> nth i (slots (rb_run N h)) None = None.
  Proof. intros HN Hi. destruct (rb_run_inv N h HN) as (_ & _ & _ & _ & _ & Hu). apply Hu, Hi. Qed.

  (** sample_batch: with every draw inside the requested range [0, len), every
      returned row is a stored one of the last min(n,N) additions. *)
  Theorem rb_sample_sound N (h : list A) idxs : 1 <= N ->
    let b := rb_run N h in
    Forall (fun i => i < rb_draw_range b) idxs ->
    Forall (fun r => exists x, r = Some x /\ In x (lastn (Nat.min (length h) N) h)) (rb_sample b idxs).
  Proof.
    intros HN b Hall. unfold rb_sample. rewrite <- (rb_len N h HN). fold b.
    induction Hall as [|i idxs Hi _ IH]; cbn [map]; constructor; [|exact IH].
    destruct (rb_slot_sound N h i HN Hi) as (x & Hx & Hin). exists x. split; assumption.
  Qed.
End RingInv.
