(** C09 — proofs about the effect graph: the frontier closure computes reachability
    exactly (for every finite graph), the boolean check is sound and complete for
    "no Ambient node reachable", and absence of reachable Ambient nodes gives
    non-interference with the ambient world. *)
From Coq Require Import List Arith NArith Bool Lia.
From RLV Require Import Model.EffectGraph.
Import ListNotations.

(** ** Small facts *)

Lemma mem_In : forall n l, mem n l = true <-> In n l.
Proof.
  intros n l. unfold mem. rewrite existsb_exists. split.
  - intros [x [Hin Heq]]. apply N.eqb_eq in Heq. subst. exact Hin.
  - intros Hin. exists n. split; [exact Hin | apply N.eqb_refl].
Qed.

Lemma mem_false_not_In : forall n l, mem n l = false <-> ~ In n l.
Proof.
  intros n l. rewrite <- mem_In. destruct (mem n l); split; intro H; try reflexivity;
    try discriminate; try (intro; discriminate). exfalso; apply H; reflexivity.
Qed.

Lemma find_node_In : forall g n nd, find_node g n = Some nd -> In nd g /\ node_id nd = n.
Proof.
  induction g as [|x g IH]; intros n nd H; simpl in H; [discriminate|].
  destruct (N.eqb (node_id x) n) eqn:E.
  - inversion H; subst. apply N.eqb_eq in E. split; [left; reflexivity | exact E].
  - destruct (IH _ _ H) as [Hin Hid]. split; [right; exact Hin | exact Hid].
Qed.

Lemma succs_in_universe : forall g roots n m, In m (succs g n) -> In m (universe g roots).
Proof.
  intros g roots n m H. unfold succs in H. destruct (find_node g n) as [nd|] eqn:E; [|contradiction].
  apply find_node_In in E. destruct E as [Hin _].
  unfold universe. apply in_or_app. right. apply in_flat_map. exists nd. split; [exact Hin|].
  right. exact H.
Qed.

Lemma new_nodes_spec : forall g vis fr m,
  In m (new_nodes g vis fr) <-> (exists n, In n fr /\ In m (succs g n)) /\ ~ In m vis.
Proof.
  intros g vis fr m. unfold new_nodes. rewrite nodup_In, filter_In, in_flat_map.
  rewrite negb_true_iff, mem_false_not_In. reflexivity.
Qed.

Lemma new_nodes_NoDup : forall g vis fr, NoDup (new_nodes g vis fr).
Proof. intros. unfold new_nodes. apply NoDup_nodup. Qed.

Lemma NoDup_app_disjoint : forall (l1 l2 : list N),
  NoDup l1 -> NoDup l2 -> (forall x, In x l1 -> ~ In x l2) -> NoDup (l1 ++ l2).
Proof.
  induction l1 as [|a l1 IH]; intros l2 H1 H2 Hd; simpl; [exact H2|].
  inversion H1 as [|? ? Hna Hnd]; subst. constructor.
  - intro Hin. apply in_app_or in Hin. destruct Hin as [Hin|Hin]; [exact (Hna Hin)|].
    exact (Hd a (or_introl eq_refl) Hin).
  - apply IH; [exact Hnd | exact H2 |]. intros x Hx. apply Hd. right. exact Hx.
Qed.

(** ** Soundness of the closure: everything it returns is reachable *)

Lemma closure_aux_sound : forall g roots fuel vis fr,
  (forall n, In n vis -> Reach g roots n) ->
  (forall n, In n fr -> Reach g roots n) ->
  forall n, In n (closure_aux g fuel vis fr) -> Reach g roots n.
Proof.
  intros g roots. induction fuel as [|f IH]; intros vis fr Hvis Hfr n Hin; simpl in Hin.
  - apply Hvis; exact Hin.
  - destruct (new_nodes g vis fr) as [|x new] eqn:E.
    + apply Hvis; exact Hin.
    + assert (Hnew : forall m, In m (x :: new) -> Reach g roots m).
      { intros m Hm. rewrite <- E in Hm. apply new_nodes_spec in Hm.
        destruct Hm as [[p [Hp Hs]] _]. apply Reach_step with p; [apply Hfr; exact Hp | exact Hs]. }
      apply (IH ((x :: new) ++ vis) (x :: new)); [| exact Hnew | exact Hin].
      intros m Hm. apply in_app_or in Hm. destruct Hm as [Hm|Hm]; [apply Hnew; exact Hm | apply Hvis; exact Hm].
Qed.

Theorem reach_sound : forall g roots fuel n, In n (closure g roots fuel) -> Reach g roots n.
Proof.
  intros g roots fuel n H. unfold closure in H.
  apply (closure_aux_sound g roots fuel _ _) in H; [exact H | |];
    intros m Hm; apply nodup_In in Hm; apply Reach_root; exact Hm.
Qed.

(** ** Completeness: with enough fuel the result contains the roots and is closed
       under successors, hence contains every reachable node.

    The argument is parametric in a finite universe [U] that contains the roots and all
    successors: the visited list is duplicate-free and included in [U], every productive
    round adds at least one element, so [fuel + |visited| > |U|] cannot run out. *)

Definition closed_under (g : graph) (l : list N) : Prop :=
  forall n, In n l -> forall m, In m (succs g n) -> In m l.

Lemma closure_aux_closed : forall g U,
  (forall n m, In m (succs g n) -> In m U) ->
  forall fuel vis fr,
  NoDup vis -> incl vis U -> incl fr vis ->
  (forall n, In n vis -> ~ In n fr -> forall m, In m (succs g n) -> In m vis) ->
  S (length U) <= fuel + length vis ->
  closed_under g (closure_aux g fuel vis fr) /\ incl vis (closure_aux g fuel vis fr).
Proof.
  intros g U HU. induction fuel as [|f IH]; intros vis fr Hnd Hincl Hfr Hcl Hfuel.
  - exfalso. pose proof (NoDup_incl_length Hnd Hincl) as Hlen. simpl in Hfuel. lia.
  - simpl. destruct (new_nodes g vis fr) as [|x new] eqn:E.
    + split; [| apply incl_refl].
      intros n Hn m Hm. destruct (in_dec N.eq_dec n fr) as [Hin|Hnin].
      * destruct (in_dec N.eq_dec m vis) as [Hv|Hnv]; [exact Hv|]. exfalso.
        assert (Hx : In m (new_nodes g vis fr)).
        { apply new_nodes_spec. split; [exists n; split; assumption | exact Hnv]. }
        rewrite E in Hx. exact Hx.
      * exact (Hcl n Hn Hnin m Hm).
    + assert (Hspec : forall m, In m (x :: new) <->
                (exists n, In n fr /\ In m (succs g n)) /\ ~ In m vis).
      { intro m. rewrite <- E. apply new_nodes_spec. }
      assert (HndN : NoDup (x :: new)). { rewrite <- E. apply new_nodes_NoDup. }
      destruct (IH ((x :: new) ++ vis) (x :: new)) as [Hc Hi].
      * apply NoDup_app_disjoint; [exact HndN | exact Hnd |].
        intros y Hy. apply Hspec in Hy. tauto.
      * intros y Hy. apply in_app_or in Hy. destruct Hy as [Hy|Hy]; [| apply Hincl; exact Hy].
        apply Hspec in Hy. destruct Hy as [[p [_ Hs]] _]. exact (HU p y Hs).
      * intros y Hy. apply in_or_app. left. exact Hy.
      * intros n Hn Hnf m Hm. apply in_app_or in Hn. destruct Hn as [Hn|Hn]; [contradiction|].
        destruct (in_dec N.eq_dec m vis) as [Hv|Hnv]; [apply in_or_app; right; exact Hv|].
        destruct (in_dec N.eq_dec n fr) as [Hin|Hnin].
        -- apply in_or_app. left. apply Hspec. split; [exists n; split; assumption | exact Hnv].
        -- apply in_or_app. right. exact (Hcl n Hn Hnin m Hm).
      * rewrite app_length. simpl length in *. lia.
      * split; [exact Hc|]. intros y Hy. apply Hi. apply in_or_app. right. exact Hy.
Qed.

Lemma closed_contains_reach : forall g roots l,
  incl roots l -> closed_under g l -> forall n, Reach g roots n -> In n l.
Proof.
  intros g roots l Hr Hc n H. induction H as [r Hin | n m _ IH Hs].
  - apply Hr; exact Hin.
  - exact (Hc n IH m Hs).
Qed.

Lemma reach_complete_gen : forall g roots U,
  incl roots U -> (forall n m, In m (succs g n) -> In m U) ->
  forall fuel, S (length U) <= fuel ->
  forall n, Reach g roots n -> In n (closure g roots fuel).
Proof.
  intros g roots U HrU HU fuel Hfuel n Hreach. unfold closure.
  set (r := nodup N.eq_dec roots).
  destruct (closure_aux_closed g U HU fuel r r) as [Hc Hi].
  - apply NoDup_nodup.
  - intros y Hy. apply HrU. apply nodup_In in Hy. exact Hy.
  - apply incl_refl.
  - intros y Hy Hny. contradiction.
  - lia.
  - apply (closed_contains_reach g roots _); [| exact Hc | exact Hreach].
    intros y Hy. apply Hi. apply nodup_In. exact Hy.
Qed.

Theorem reach_complete : forall g roots fuel,
  enough_fuel g roots <= fuel ->
  forall n, Reach g roots n -> In n (closure g roots fuel).
Proof.
  intros g roots fuel Hfuel. apply (reach_complete_gen g roots (universe g roots)).
  - intros y Hy. unfold universe. apply in_or_app. left. exact Hy.
  - intros n m Hm. exact (succs_in_universe g roots n m Hm).
  - exact Hfuel.
Qed.

Theorem closure_exact : forall g roots fuel,
  enough_fuel g roots <= fuel ->
  forall n, In n (closure g roots fuel) <-> Reach g roots n.
Proof.
  intros g roots fuel Hf n. split; [apply reach_sound | apply reach_complete; exact Hf].
Qed.

(** For a closed graph (every root and callee has a node) fuel = number of nodes + 1 suffices. *)
Theorem reach_complete_closed : forall g roots fuel,
  closed_graph g roots = true -> S (length g) <= fuel ->
  forall n, Reach g roots n -> In n (closure g roots fuel).
Proof.
  intros g roots fuel Hcl Hfuel.
  unfold closed_graph in Hcl. rewrite forallb_forall in Hcl.
  apply (reach_complete_gen g roots (map node_id g)).
  - intros y Hy. apply mem_In. apply Hcl. unfold universe. apply in_or_app. left. exact Hy.
  - intros n m Hm. apply mem_In. apply Hcl. exact (succs_in_universe g roots n m Hm).
  - rewrite map_length. exact Hfuel.
Qed.

(** ** The boolean check decides "no Ambient node is reachable" *)

Theorem ambient_free_sound : forall g roots,
  ambient_free g roots = true -> forall n, Reach g roots n -> label_of g n <> Ambient.
Proof.
  intros g roots H n Hr. unfold ambient_free in H. rewrite forallb_forall in H.
  assert (Hin : In n (closure g roots (enough_fuel g roots))).
  { apply reach_complete; [apply le_n | exact Hr]. }
  specialize (H n Hin). intro Hl. rewrite Hl in H. discriminate.
Qed.

Theorem ambient_free_complete : forall g roots,
  ambient_free g roots = false -> exists n, Reach g roots n /\ label_of g n = Ambient.
Proof.
  intros g roots H. unfold ambient_free in H.
  assert (Hex : exists n, In n (closure g roots (enough_fuel g roots)) /\
                          negb (is_ambient (label_of g n)) = false).
  { revert H. generalize (closure g roots (enough_fuel g roots)).
    induction l as [|a l IH]; simpl; intro H; [discriminate|].
    destruct (negb (is_ambient (label_of g a))) eqn:E.
    - simpl in H. destruct (IH H) as [n [Hin Hn]]. exists n. split; [right; exact Hin | exact Hn].
    - exists a. split; [left; reflexivity | exact E]. }
  destruct Hex as [n [Hin Hn]]. exists n. split; [exact (reach_sound g roots _ n Hin)|].
  destruct (label_of g n); simpl in Hn; try discriminate. reflexivity.
Qed.

(** The reachable labels are then among Pure, Seeded, WallClock. *)
Corollary ambient_free_labels : forall g roots,
  ambient_free g roots = true -> forall n, Reach g roots n ->
  label_of g n = Pure \/ label_of g n = Seeded \/ label_of g n = WallClock.
Proof.
  intros g roots H n Hr. pose proof (ambient_free_sound g roots H n Hr) as Hn.
  destruct (label_of g n); auto. exfalso; apply Hn; reflexivity.
Qed.

(** ** Non-interference *)

Section NonInterference.
  Variable V : Type.
  Variable g : graph.
  Variable roots : list N.
  Variable code : code_table V.
  Hypothesis Hcode : respects V g code.
  Hypothesis Hfree : forall n, Reach g roots n -> label_of g n <> Ambient.

  (** Two evaluations of an admissible program of a reachable node, in two arbitrary worlds
      (even of different types, with different read functions), run out of fuel together or
      return the same value. *)
  Lemma run_noninterference :
    forall (W1 W2 : Type) (read1 : W1 -> V -> V * W1) (read2 : W2 -> V -> V * W2),
    forall fuel n p w1 w2,
    Reach g roots n -> admissible V g n p ->
    option_map fst (run V W1 read1 code fuel w1 p) = option_map fst (run V W2 read2 code fuel w2 p).
  Proof.
    intros W1 W2 read1 read2. induction fuel as [|f IH]; intros n p w1 w2 Hr Hadm; [reflexivity|].
    destruct Hadm as [v | m a k Hm Hk | q k Hl Hk]; simpl.
    - reflexivity.
    - assert (Hrm : Reach g roots m) by (apply Reach_step with n; assumption).
      pose proof (IH m (code m a) w1 w2 Hrm (Hcode m a)) as Hcallee.
      destruct (run V W1 read1 code f w1 (code m a)) as [[r1 w1']|];
        destruct (run V W2 read2 code f w2 (code m a)) as [[r2 w2']|];
        simpl in Hcallee; try discriminate; [|reflexivity].
      inversion Hcallee; subst. apply (IH n (k r2) w1' w2' Hr (Hk r2)).
    - exfalso. exact (Hfree n Hr Hl).
  Qed.

  Theorem no_ambient_noninterference :
    forall (W1 W2 : Type) (read1 : W1 -> V -> V * W1) (read2 : W2 -> V -> V * W2),
    forall fuel r a w1 w2, In r roots ->
    result V W1 read1 code fuel w1 r a = result V W2 read2 code fuel w2 r a.
  Proof.
    intros W1 W2 read1 read2 fuel r a w1 w2 Hin. unfold result.
    apply (run_noninterference W1 W2 read1 read2 fuel r (code r a) w1 w2).
    - apply Reach_root; exact Hin.
    - apply Hcode.
  Qed.
End NonInterference.

(** The check implies non-interference for every entry point. *)
Theorem ambient_free_noninterference : forall (V : Type) g roots (code : code_table V),
  ambient_free g roots = true -> respects V g code ->
  forall (W1 W2 : Type) (read1 : W1 -> V -> V * W1) (read2 : W2 -> V -> V * W2),
  forall fuel r a w1 w2, In r roots ->
  result V W1 read1 code fuel w1 r a = result V W2 read2 code fuel w2 r a.
Proof.
  intros V g roots code Hfree Hcode. apply (no_ambient_noninterference V g roots code Hcode).
  exact (ambient_free_sound g roots Hfree).
Qed.

(** The hypotheses are satisfiable and the conclusion is not vacuous: in a two-node graph whose
    callee is Ambient the check fails and two worlds do give different results. *)
Example ex_graph_clean : graph := [(0%N, Pure, [1%N]); (1%N, Seeded, [])].
Example ex_graph_dirty : graph := [(0%N, Pure, [1%N]); (1%N, Ambient, [])].
Example ex_clean_ok : ambient_free ex_graph_clean [0%N] = true.
Proof. reflexivity. Qed.
Example ex_dirty_detected : ambient_free ex_graph_dirty [0%N] = false.
Proof. reflexivity. Qed.
Example ex_dangling_detected : ambient_free [(0%N, Pure, [7%N])] [0%N] = false.
Proof. reflexivity. Qed.

Definition ex_code : code_table nat := fun n a =>
  match n with
  | 0%N => Call 1%N a (fun r => Ret (r + 1))
  | _ => ReadAmbient a (fun r => Ret r)
  end.
Example ex_code_respects_dirty : respects nat ex_graph_dirty ex_code.
Proof.
  intros n a. destruct n as [|p]; simpl.
  - apply adm_call; [left; reflexivity | intro; apply adm_ret].
  - apply adm_read; [| intro; apply adm_ret].
    destruct p as [p|p|]; try reflexivity; destruct p; reflexivity.
Qed.
Example ex_dirty_interferes :
  result nat unit (fun w _ => (3, w)) ex_code 5 tt 0%N 0 <> result nat unit (fun w _ => (4, w)) ex_code 5 tt 0%N 0.
Proof. vm_compute. discriminate. Qed.
