From Coq Require Import List Arith Bool Lia Reals Lra.
From RLV Require Import Model.Num Model.Bandit Proofs.TabularProofs.
Import ListNotations.

(* ---- alternation ---- *)
Fixpoint alternates (first : sel_op) (ops : list sel_op) : Prop :=
  match ops with
  | [] => True
  | o :: ops' => o = first /\ alternates (match first with OpSelect => OpFeedback | OpFeedback => OpSelect end) ops'
  end.

Lemma sel_run_alternates ops : forall w w', sel_run w ops = Some w' ->
  alternates (if w then OpFeedback else OpSelect) ops.
Proof.
  induction ops as [|o ops IH]; intros w w' H; cbn [alternates]; [exact I|].
  cbn [sel_run] in H. destruct o, w; cbn [sel_step] in H; try discriminate.
  - split; [reflexivity|]. apply (IH true w' H).
  - split; [reflexivity|]. apply (IH false w' H).
Qed.

Lemma sel_run_rejects_double w o ops : sel_run w (o :: o :: ops) = None.
Proof. destruct o, w; reflexivity. Qed.

(* ---- round robin ---- *)
Lemma rr_run_nth n : (0 < n)%nat -> forall k i j, (j < k)%nat -> nth j (rr_run i n k) 0%nat = ((i + 1 + j) mod n)%nat.
Proof.
  intros Hn. induction k as [|k IH]; intros i j Hj; [lia|].
  cbn [rr_run rr_select]. destruct j as [|j]; cbn [nth].
  - f_equal. lia.
  - rewrite IH by lia. f_equal. lia.
Qed.

Lemma rr_valid n : (0 < n)%nat -> forall k i, Forall (fun t => (t < n)%nat) (rr_run i n k).
Proof.
  intros Hn. induction k as [|k IH]; intros i; cbn [rr_run rr_select]; constructor.
  - apply Nat.mod_upper_bound. lia.
  - apply IH.
Qed.

Lemma rr_length i n k : length (rr_run i n k) = k.
Proof. revert i. induction k as [|k IH]; intros i; cbn [rr_run rr_select length]; [reflexivity | rewrite IH; reflexivity]. Qed.

(** within any n consecutive selections every task is selected *)
Lemma rr_covers n : (0 < n)%nat -> forall i t, (t < n)%nat -> exists j, (j < n)%nat /\ nth j (rr_run i n n) 0%nat = t.
Proof.
  intros Hn i t Ht.
  exists ((t + n - (i + 1) mod n) mod n)%nat. split; [apply Nat.mod_upper_bound; lia|].
  rewrite (rr_run_nth n Hn) by (apply Nat.mod_upper_bound; lia).
  rewrite Nat.add_mod_idemp_r by lia.
  pose proof (Nat.mod_upper_bound (i + 1) n ltac:(lia)) as Hb.
  rewrite (Nat.div_mod (i + 1) n) at 1 by lia.
  replace (n * ((i + 1) / n) + (i + 1) mod n + (t + n - (i + 1) mod n))%nat with (t + (1 + (i + 1) / n) * n)%nat by nia.
  rewrite Nat.mod_add by lia. apply Nat.mod_small. exact Ht.
Qed.

(* ---- discounted UCB ---- *)
Local Open Scope R_scope.
Section DUCBR.
  Variables (ub g zeta : R) (n : nat).
  Hypothesis Hn : (0 < n)%nat.

  Lemma ducb_initial hist : (length hist < 2 * n)%nat -> ducb_choose ub g zeta n hist = (length hist mod n)%nat.
  Proof. intros H. unfold ducb_choose. apply Nat.ltb_lt in H. rewrite H. reflexivity. Qed.

  Lemma ducb_valid hist : (ducb_choose ub g zeta n hist < n)%nat.
  Proof.
    unfold ducb_choose. destruct (Nat.ltb (length hist) (2 * n)).
    - apply Nat.mod_upper_bound. lia.
    - assert (Hne : map (dscore ub g zeta n hist) (seq 0 n) <> []) by (destruct n; [lia | cbn; discriminate]).
      destruct (argmax_is_max _ Hne) as [Hlt _]. rewrite map_length, seq_length in Hlt. exact Hlt.
  Qed.

  (** after the initial rounds the chosen arm maximises discounted mean + exploration bonus *)
  Lemma ducb_maximises hist : (2 * n <= length hist)%nat ->
    forall arm, (arm < n)%nat -> dscore ub g zeta n hist arm <= dscore ub g zeta n hist (ducb_choose ub g zeta n hist).
  Proof.
    intros H arm Harm. unfold ducb_choose. apply Nat.ltb_ge in H. rewrite H.
    set (l := map (dscore ub g zeta n hist) (seq 0 n)).
    assert (Hne : l <> []) by (subst l; destruct n; [lia | cbn; discriminate]).
    destruct (argmax_is_max l Hne) as [Hlt [Hall _]].
    assert (Hlen : length l = n) by (subst l; rewrite map_length, seq_length; reflexivity).
    assert (Hnth : forall k, (k < n)%nat -> nth k l 0 = dscore ub g zeta n hist k).
    { intros k Hk. subst l. rewrite (nth_indep _ 0 (dscore ub g zeta n hist 0%nat)) by (rewrite map_length, seq_length; exact Hk).
      rewrite map_nth. rewrite seq_nth by exact Hk. reflexivity. }
    rewrite Forall_forall in Hall.
    rewrite <- (Hnth arm Harm). rewrite <- (Hnth (nargmax l)) by lia.
    apply Hall. apply nth_In. lia.
  Qed.

  (** in a run of the bandit the first 2n rounds play every arm twice, in order *)
  Lemma ducb_run_initial : forall rewards hist k,
    (length hist + k < 2 * n)%nat -> (k < length rewards)%nat ->
    nth k (ducb_run ub g zeta n hist rewards) 0%nat = ((length hist + k) mod n)%nat.
  Proof.
    induction rewards as [|r rest IH]; intros hist k Hk Hlen; cbn [length] in Hlen; [lia|].
    cbn [ducb_run]. destruct k as [|k]; cbn [nth].
    - rewrite ducb_initial by lia. f_equal. lia.
    - rewrite IH; rewrite ?app_length; cbn [length]; try lia. f_equal. lia.
  Qed.
End DUCBR.

Example ducb_nonvacuous :
  ducb_choose (F := R) 1 (1/2) (1/10) 2 [] = 0%nat /\ (2 * 2 <= length [(0%nat, 1); (1%nat, 0); (0%nat, 1); (1%nat, 0)])%nat.
Proof. split; [reflexivity | cbn; lia]. Qed.
