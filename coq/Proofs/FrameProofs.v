From Coq Require Import List Arith Bool Lia.
From RLV Require Import Model.Frame.
Import ListNotations.

Lemma mem_In x l : mem x l = true <-> In x l.
Proof.
  unfold mem. rewrite existsb_exists. split.
  - intros [y [Hy He]]. apply Nat.eqb_eq in He. subst. exact Hy.
  - intros H. exists x. split; [exact H | apply Nat.eqb_refl].
Qed.

Lemma mem_false x l : mem x l = false <-> ~ In x l.
Proof.
  rewrite <- mem_In. destruct (mem x l); split; intros H.
  - discriminate.
  - exfalso. apply H. reflexivity.
  - intros H'. discriminate.
  - reflexivity.
Qed.

Section Frame.
  Variable V : Type.
  Implicit Types (h : heap V) (r : routine) (o : obj).

  Lemma apply_frame r orc h l : ~ In l (write_set r) -> apply V r orc h l = h l.
  Proof. intros H. unfold apply. apply mem_false in H. rewrite H. reflexivity. Qed.

  Lemma apply_writes r orc h l : In l (write_set r) -> apply V r orc h l = orc l.
  Proof. intros H. unfold apply. apply mem_In in H. rewrite H. reflexivity. Qed.

  Lemma apply_frame_obj r orc h o :
    (forall p l, In (p, l) o -> ~ In l (write_set r)) -> read V (apply V r orc h) o = read V h o.
  Proof.
    intros H. unfold read. apply map_ext_in. intros [p l] Hin. cbn [fst snd].
    rewrite apply_frame; [reflexivity | exact (H p l Hin)].
  Qed.

  Lemma eval_pure r orc h : write_set r = [] -> forall l, apply V r orc h l = h l.
  Proof. intros H l. apply apply_frame. rewrite H. intros []. Qed.

  Lemma apply_all_frame rs h l :
    (forall r orc, In (r, orc) rs -> ~ In l (write_set r)) -> apply_all V rs h l = h l.
  Proof.
    unfold apply_all. revert h. induction rs as [|[r orc] rs IH]; intros h H; cbn [fold_left fst snd]; [reflexivity|].
    rewrite IH.
    - apply apply_frame. apply (H r orc). left. reflexivity.
    - intros r' orc' Hin. apply (H r' orc'). right. exact Hin.
  Qed.

  Variable eqb : V -> V -> bool.
  Hypothesis eqb_refl : forall v, eqb v v = true.
  Hypothesis eqb_sound : forall a b, eqb a b = true -> a = b.

  Lemma changed_in_may_change r orc h o p :
    In p (changed_paths V eqb h (apply V r orc h) o) -> In p (may_change (write_set r) o).
  Proof.
    unfold changed_paths, may_change. rewrite !in_map_iff.
    intros [[p' l] [Hp Hf]]. cbn [fst] in Hp. subst p'. apply filter_In in Hf. destruct Hf as [Hin Hne].
    exists (p, l). split; [reflexivity|]. apply filter_In. split; [exact Hin|]. cbn [snd] in *.
    destruct (mem l (write_set r)) eqn:Hm; [reflexivity|].
    apply mem_false in Hm. rewrite apply_frame in Hne by exact Hm. rewrite eqb_refl in Hne. discriminate.
  Qed.

  Lemma frame_violations_nil r orc h o :
    frame_violations (write_set r) o (changed_paths V eqb h (apply V r orc h) o) = [].
  Proof.
    unfold frame_violations.
    destruct (filter _ _) as [|p ps] eqn:Hf; [reflexivity|].
    assert (Hin : In p (p :: ps)) by (left; reflexivity). rewrite <- Hf in Hin.
    apply filter_In in Hin. destruct Hin as [Hc Hn].
    apply changed_in_may_change in Hc. apply mem_In in Hc. rewrite Hc in Hn. discriminate.
  Qed.

  Lemma trained_changes r orc h o p l :
    In (p, l) o -> In l (trained r) -> orc l <> h l -> In p (changed_paths V eqb h (apply V r orc h) o).
  Proof.
    intros Hin Ht Hne. unfold changed_paths. apply in_map_iff. exists (p, l). split; [reflexivity|].
    apply filter_In. split; [exact Hin|]. cbn [snd].
    rewrite apply_writes by (unfold write_set; apply in_or_app; left; exact Ht).
    destruct (eqb (h l) (orc l)) eqn:He; [|reflexivity].
    apply eqb_sound in He. exfalso. apply Hne. symmetry. exact He.
  Qed.
End Frame.

(** objects that share no storage with the trained component and its optimizer read back identically *)
Lemma shares_false o1 o2 : shares o1 o2 = false -> forall p l, In (p, l) o1 -> ~ In l (map snd o2).
Proof.
  unfold shares. intros H p l Hin Hl.
  assert (Ht : existsb (fun pl => mem (snd pl) (map snd o2)) o1 = true).
  { apply existsb_exists. exists (p, l). split; [exact Hin|]. cbn [snd]. apply mem_In. exact Hl. }
  rewrite Ht in H. discriminate.
Qed.

Lemma disjoint_object_unchanged V (r : routine) (orc : leaf -> V) (h : heap V) (o ot : obj) :
  (forall l, In l (write_set r) -> In l (map snd ot)) -> shares o ot = false ->
  read V (apply V r orc h) o = read V h o.
Proof.
  intros Hws Hsh. apply apply_frame_obj. intros p l Hin Hl.
  apply (shares_false o ot Hsh p l Hin). apply Hws. exact Hl.
Qed.

Example sharing_example :
  sharing [[(0, 3); (1, 7)]; [(0, 5)]; [(0, 9); (1, 7)]] = [(0, 2)] /\ sharing [[(0, 1)]; [(0, 2)]] = [].
Proof. split; reflexivity. Qed.

(** the executable check used by the harness: empty iff every changed path is explained *)
Lemma frame_violations_spec ws o changed :
  frame_violations ws o changed = [] <-> (forall p, In p changed -> In p (may_change ws o)).
Proof.
  unfold frame_violations. split.
  - intros H p Hp. destruct (mem p (may_change ws o)) eqn:Hm; [apply mem_In; exact Hm|].
    assert (Hin : In p (filter (fun p => negb (mem p (may_change ws o))) changed)) by (apply filter_In; split; [exact Hp | rewrite Hm; reflexivity]).
    rewrite H in Hin. destruct Hin.
  - intros H. destruct (filter _ _) as [|p ps] eqn:Hf; [reflexivity|].
    assert (Hin : In p (p :: ps)) by (left; reflexivity). rewrite <- Hf in Hin. apply filter_In in Hin.
    destruct Hin as [Hc Hn]. apply H in Hc. apply mem_In in Hc. rewrite Hc in Hn. discriminate.
Qed.

Lemma frame_check_from_spec i ws objs changed :
  length objs = length changed ->
  (frame_check_from i ws objs changed = [] <->
   (forall k o c, nth_error objs k = Some o -> nth_error changed k = Some c -> forall p, In p c -> In p (may_change ws o))).
Proof.
  revert i changed. induction objs as [|o objs IH]; intros i [|c changed] Hlen; cbn [length] in Hlen; try discriminate.
  - cbn. split; [intros _ k o c Hk; destruct k; discriminate | reflexivity].
  - cbn [frame_check_from]. split.
    + intros H. apply app_eq_nil in H. destruct H as [H1 H2].
      apply map_eq_nil in H1. intros [|k] o' c' Ho Hc; cbn in Ho, Hc.
      * injection Ho as <-. injection Hc as <-. apply frame_violations_spec. exact H1.
      * apply (proj1 (IH (S i) changed ltac:(lia)) H2 k o' c' Ho Hc).
    + intros H. assert (H1 : frame_violations ws o c = []) by (apply frame_violations_spec; apply (H 0 o c eq_refl eq_refl)).
      rewrite H1. cbn [map app]. apply (IH (S i) changed ltac:(lia)). intros k o' c' Ho Hc. apply (H (S k) o' c' Ho Hc).
Qed.

(** the disjointness premise of the frame rule is necessary: with a shared leaf it fails *)
Lemma alias_refuted :
  exists (r : routine) (orc : leaf -> nat) (h : heap nat) (o : obj),
    (exists p l, In (p, l) o /\ In l (write_set r)) /\ read nat (apply nat r orc h) o <> read nat h o.
Proof.
  exists {| trained := [7]; opt := [] |}, (fun _ => 1), (fun _ => 0), [(0, 3); (1, 7)].
  split; [exists 1, 7; split; [right; left; reflexivity | left; reflexivity]|].
  vm_compute. discriminate.
Qed.

Example frame_example :
  frame_check [7; 8] [[(0, 3); (1, 7)]; [(0, 5)]] [[1]; []] = [] /\
  frame_check [7; 8] [[(0, 3); (1, 7)]; [(0, 5)]] [[0; 1]; [0]] = [(0, 0); (1, 0)].
Proof. split; reflexivity. Qed.
