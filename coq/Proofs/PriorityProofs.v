(** C08 — prioritized sampling law and priority bookkeeping (over Q, the executed instance). *)
From Coq Require Import ZArith QArith List Bool Arith Lia Lqa.
From RLV Require Import Model.Buffers Proofs.RingProofs.
Import ListNotations.
Local Close Scope Q_scope.
Local Open Scope nat_scope.

(* ------------------------------------------------------------------ *)
(** ** cumulative sums and searchsorted *)
Fixpoint psum (l : list Q) : Q := match l with [] => 0%Q | x :: t => (x + psum t)%Q end.

Fixpoint cumsum_spec (a : Q) (l : list Q) : list Q :=
  match l with [] => [] | x :: t => (a + x)%Q :: cumsum_spec (a + x)%Q t end.

Lemma cumsum_from_spec l : forall a a', (a == a')%Q ->
  Forall2 Qeq (cumsum_from a l) (cumsum_spec a' l).
Proof.
  induction l as [|x t IH]; intros a a' E; cbn [cumsum_from cumsum_spec]; constructor.
  - rewrite Qred_correct, E. reflexivity.
  - apply IH. rewrite Qred_correct, E. reflexivity.
Qed.

Lemma search_left_ext c c' x x' : Forall2 Qeq c c' -> (x == x')%Q -> search_left c x = search_left c' x'.
Proof.
  intros H E; induction H as [|y y' t t' Hy _ IH]; cbn; [reflexivity|].
  destruct (Qlt_le_dec y x) as [L|L]; destruct (Qlt_le_dec y' x') as [L'|L']; try (rewrite IH; reflexivity); try reflexivity.
  - exfalso. rewrite Hy, E in L. apply (Qlt_not_le _ _ L L').
  - exfalso. rewrite Hy, E in L. apply (Qlt_not_le _ _ L' L).
Qed.

Lemma qlast_ext c c' : Forall2 Qeq c c' -> (qlast c == qlast c')%Q.
Proof.
  unfold qlast. intro H; induction H as [|y y' t t' Hy Ht IH]; cbn; [reflexivity|].
  destruct Ht; [exact Hy|exact IH].
Qed.

Lemma qlast_cumsum_spec l : forall a, (qlast (cumsum_spec a l) == (if l then 0 else a + psum l))%Q.
Proof.
  unfold qlast. induction l as [|x t IH]; intro a; [reflexivity|].
  cbn [cumsum_spec psum]. destruct t as [|y t'].
  - cbn. ring.
  - change (last ((a + x)%Q :: cumsum_spec (a + x)%Q (y :: t')) 0%Q) with (last (cumsum_spec (a + x)%Q (y :: t')) 0%Q).
    rewrite IH. ring.
Qed.

(** The search law: for non-negative weights and a point x in (a, a + sum], the index
    found is in range, has positive weight and x lies in its cumulative interval. *)
Lemma search_spec p : forall a x,
  Forall (fun q => 0 <= q)%Q p -> (a < x)%Q -> (x <= a + psum p)%Q ->
  let i := search_left (cumsum_spec a p) x in
  i < length p /\ (a + psum (firstn i p) < x)%Q /\ (x <= a + psum (firstn (S i) p))%Q /\
  (0 < nth i p 0)%Q.
Proof.
  induction p as [|y t IH]; intros a x Hp Hax Hx; cbn [psum] in Hx.
  - exfalso. apply (Qlt_not_le _ _ Hax). lra.
  - inversion Hp as [|? ? Hy Ht]; subst. cbn [cumsum_spec search_left].
    destruct (Qlt_le_dec (a + y) x) as [L|L].
    + destruct (IH (a + y)%Q x Ht L) as (H1 & H2 & H3 & H4); [lra|].
      cbn zeta in *. set (i := search_left (cumsum_spec (a + y)%Q t) x) in *.
      cbn [length firstn psum nth]. repeat split.
      * lia.
      * lra.
      * cbn [firstn psum] in H3. lra.
      * exact H4.
    + cbn [length firstn psum nth]. repeat split; try lia; try lra.
Qed.

(* ------------------------------------------------------------------ *)
(** ** the sampling law of prioritized_sampling *)
Definition masked (pr : list Q) (n : nat) (mask : option (list bool)) : list Q :=
  apply_mask (firstn n pr) (option_map (firstn n) mask).

Lemma masked_nonneg pr n mask : Forall (fun q => 0 <= q)%Q pr -> Forall (fun q => 0 <= q)%Q (masked pr n mask).
Proof.
  intro H. unfold masked, apply_mask.
  assert (Hf : Forall (fun q => 0 <= q)%Q (firstn n pr)).
  { revert n; induction H; intros [|n]; cbn; constructor; auto. }
  destruct mask as [m|]; cbn [option_map]; [|exact Hf].
  generalize (firstn n m). induction Hf as [|q l Hq Hl IH]; intros [|b mm]; cbn; constructor.
  - destruct b; [exact Hq|lra].
  - apply IH.
Qed.

Lemma masked_length pr n mask : length (masked pr n mask) <= n.
Proof.
  unfold masked, apply_mask. destruct mask as [m|]; cbn [option_map].
  - rewrite map_length, combine_length, !firstn_length. lia.
  - rewrite firstn_length. lia.
Qed.

Lemma masked_nth_pos pr n m i : (0 < nth i (masked pr n (Some m)) 0)%Q ->
  nth i m false = true /\ (0 < nth i pr 0)%Q /\ i < n.
Proof.
  unfold masked, apply_mask; cbn [option_map]. revert pr m i.
  induction n as [|n IH]; intros pr m i H.
  - cbn in H. destruct i; cbn in H; lra.
  - destruct pr as [|q pr]; [destruct i; cbn in H; lra|].
    destruct m as [|b m]; [destruct i; cbn in H; lra|].
    destruct i as [|i]; cbn in H |- *.
    + destruct b; [repeat split; auto; lia|lra].
    + destruct (IH pr m i H) as (A & B & C). repeat split; auto. lia.
Qed.

(** prioritized_sampling: for non-negative priorities with positive (masked) total and
    a uniform variate u in the open interval (0,1), the returned index i is below the
    filled length, its masked priority is positive, and u*T lies in the i-th cumulative
    interval (c_{i-1}, c_i] — an interval of length p_i*m_i, i.e. probability p_i m_i / T. *)
Theorem sample_law pr n mask u :
  Forall (fun q => 0 <= q)%Q pr ->
  let w := masked pr n mask in
  (0 < psum w)%Q -> (0 < u)%Q -> (u < 1)%Q ->
  let i := nth 0 (pb_sample_idx pr n mask [u]) 0 in
  i < n /\ i < length w /\ (0 < nth i w 0)%Q /\
  (psum (firstn i w) < u * psum w)%Q /\ (u * psum w <= psum (firstn (S i) w))%Q.
Proof.
  intros Hpr w HT Hu0 Hu1. unfold pb_sample_idx. cbn [map nth]. fold (masked pr n mask). fold w.
  assert (Hw : Forall (fun q => 0 <= q)%Q w) by (apply masked_nonneg; exact Hpr).
  assert (Hne : w <> []) by (intro E; rewrite E in HT; cbn in HT; lra).
  pose proof (cumsum_from_spec w 0%Q 0%Q (Qeq_refl _)) as Hc. fold (cumsum w) in Hc.
  assert (Hlast : (qlast (cumsum w) == psum w)%Q).
  { rewrite (qlast_ext _ _ Hc), qlast_cumsum_spec. destruct w; [congruence|]. ring. }
  rewrite (search_left_ext _ _ _ (u * psum w)%Q Hc) by (rewrite Hlast; reflexivity).
  destruct (search_spec w 0%Q (u * psum w)%Q Hw) as (H1 & H2 & H3 & H4).
  - apply Qmult_lt_0_compat; assumption.
  - assert (u * psum w <= 1 * psum w)%Q by (apply Qmult_le_compat_r; lra). lra.
  - cbn zeta in *. set (i := search_left (cumsum_spec 0%Q w) (u * psum w)%Q) in *.
    pose proof (masked_length pr n mask). fold w in H.
    repeat split; try lia; try lra.
Qed.

(** Stratified variant: the k-th point lies in the k-th of B equal segments of (0, T]
    and is mapped to the index whose cumulative interval contains it. *)
Lemma strat_points_nth seg us : forall k j u, nth_error us j = Some u ->
  nth_error (strat_points seg k us) j =
  Some (inject_Z (Z.of_nat (k + j)) * seg
        + (inject_Z (Z.of_nat (S (k + j))) * seg - inject_Z (Z.of_nat (k + j)) * seg) * u)%Q.
Proof.
  induction us as [|v t IH]; intros k [|j] u H; cbn in *; try discriminate.
  - injection H as ->. rewrite Nat.add_0_r. reflexivity.
  - rewrite (IH (S k) j u H). replace (S k + j) with (k + S j) by lia. reflexivity.
Qed.

Theorem strat_sample_law pr n us j u :
  Forall (fun q => 0 <= q)%Q pr ->
  let w := firstn n pr in
  (0 < psum w)%Q -> nth_error us j = Some u -> (0 < u)%Q -> (u < 1)%Q ->
  let B := inject_Z (Z.of_nat (length us)) in
  exists x i, nth_error (strat_sample_idx pr n us) j = Some i /\
    (inject_Z (Z.of_nat j) * (psum w / B) < x)%Q /\ (x < inject_Z (Z.of_nat (S j)) * (psum w / B))%Q /\
    i < n /\ (0 < nth i w 0)%Q /\ (psum (firstn i w) < x)%Q /\ (x <= psum (firstn (S i) w))%Q.
Proof.
  intros Hpr w HT Hj Hu0 Hu1 B.
  assert (HjB : j < length us) by (apply nth_error_Some; congruence).
  assert (HBpos : (0 < B)%Q).
  { unfold B. change 0%Q with (inject_Z 0). rewrite <- Zlt_Qlt. lia. }
  assert (Hw : Forall (fun q => 0 <= q)%Q w).
  { unfold w. clear -Hpr. revert n; induction Hpr; intros [|n]; cbn; constructor; auto. }
  pose proof (cumsum_from_spec w 0%Q 0%Q (Qeq_refl _)) as Hc. fold (cumsum w) in Hc.
  assert (Hne : w <> []) by (intro E; rewrite E in HT; cbn in HT; lra).
  assert (Hlast : (qlast (cumsum w) == psum w)%Q).
  { rewrite (qlast_ext _ _ Hc), qlast_cumsum_spec. destruct w; [congruence|]. ring. }
  unfold strat_sample_idx. fold w.
  set (seg := (qlast (cumsum w) / inject_Z (Z.of_nat (length us)))%Q).
  assert (Hseg : (seg == psum w / B)%Q) by (unfold seg, B; rewrite Hlast; reflexivity).
  pose proof (strat_points_nth seg us 0 j u Hj) as Hp. cbn [Nat.add] in Hp.
  set (x := (inject_Z (Z.of_nat j) * seg + (inject_Z (Z.of_nat (S j)) * seg - inject_Z (Z.of_nat j) * seg) * u)%Q) in *.
  exists x, (search_left (cumsum_spec 0%Q w) x).
  assert (HS : (inject_Z (Z.of_nat (S j)) == inject_Z (Z.of_nat j) + 1)%Q).
  { rewrite Nat2Z.inj_succ. unfold Z.succ. rewrite inject_Z_plus. reflexivity. }
  assert (Hsegpos : (0 < seg)%Q).
  { rewrite Hseg. apply Qlt_shift_div_l; lra. }
  assert (Hj0 : (0 <= inject_Z (Z.of_nat j))%Q).
  { change 0%Q with (inject_Z 0). rewrite <- Zle_Qle. lia. }
  assert (Hx1 : (inject_Z (Z.of_nat j) * seg < x)%Q).
  { unfold x. rewrite HS. assert (0 < seg * u)%Q by (apply Qmult_lt_0_compat; assumption). lra. }
  assert (Hx2 : (x < inject_Z (Z.of_nat (S j)) * seg)%Q).
  { unfold x. rewrite HS. assert (seg * u < seg * 1)%Q by (apply Qmult_lt_l; assumption). lra. }
  assert (HjB' : (inject_Z (Z.of_nat (S j)) <= B)%Q).
  { unfold B. rewrite <- Zle_Qle. lia. }
  assert (Hx3 : (x <= psum w)%Q).
  { assert (inject_Z (Z.of_nat (S j)) * seg <= B * seg)%Q by (apply Qmult_le_compat_r; lra).
    assert (B * seg == psum w)%Q by (rewrite Hseg; field; lra). lra. }
  assert (Hx0 : (0 < x)%Q).
  { assert (0 <= inject_Z (Z.of_nat j) * seg)%Q by (apply Qmult_le_0_compat; lra). lra. }
  destruct (search_spec w 0%Q x Hw) as (H1 & H2 & H3 & H4); [lra|lra|].
  cbn zeta in *. set (i := search_left (cumsum_spec 0%Q w) x) in *.
  split.
  - rewrite nth_error_map, Hp. cbn [option_map]. f_equal.
    apply search_left_ext; [exact Hc|reflexivity].
  - rewrite <- Hseg. repeat split; try lra.
    + unfold w in H1. rewrite firstn_length in H1. lia.
Qed.
