(** C06 (Polyak / hard-copy law) and C10 (actions respect the bounds), over R. *)
From Coq Require Import Reals List Bool Arith Lra Lia.
From RLV Require Import Model.Num Model.Target Model.Bounds Model.Heads Proofs.RingProofs Proofs.WeightsProofs
  Proofs.TabularProofs Proofs.BlocksProofs Proofs.HeadsProofs.
Import ListNotations.
Local Open Scope R_scope.

(* ------------------------------------------------------------------ *)
(** ** C06: soft / hard updates *)
Definition same_shape_tree (a b : tree (F := R)) : Prop :=
  length a = length b /\ Forall (fun ab => length (fst ab) = length (snd ab)) (combine a b).

Lemma map2_length {A B C} (f : A -> B -> C) a b : length (map2 f a b) = Nat.min (length a) (length b).
Proof. unfold map2. rewrite map_length, combine_length. reflexivity. Qed.

Lemma combine_nth_lt {A B} (a : list A) (b : list B) i da db : (i < length a)%nat -> (i < length b)%nat ->
  nth i (combine a b) (da, db) = (nth i a da, nth i b db).
Proof. revert b i; induction a as [|x a IH]; intros [|y b] [|i] Ha Hb; cbn in *; try lia; auto. apply IH; lia. Qed.

Lemma map2_nth {A B C} (f : A -> B -> C) a b i da db dc : (i < length a)%nat -> (i < length b)%nat ->
  nth i (map2 f a b) dc = f (nth i a da) (nth i b db).
Proof.
  intros Ha Hb. unfold map2. rewrite (nth_map_in _ _ i (da, db) dc) by (rewrite combine_length; lia).
  rewrite combine_nth_lt by assumption. reflexivity.
Qed.

(** every leaf entry of the new target is tau*online + (1-tau)*target *)
Theorem polyak_leafwise tau (online target : tree) j i :
  (j < length online)%nat -> (j < length target)%nat ->
  (i < length (nth j online []))%nat -> (i < length (nth j target []))%nat ->
  nth i (nth j (soft_update tau online target) []) 0 =
  tau * nth i (nth j online []) 0 + (1 - tau) * nth i (nth j target []) 0.
Proof.
  intros Hj1 Hj2 Hi1 Hi2. unfold soft_update.
  rewrite (map2_nth _ online target j [] [] []) by assumption.
  rewrite (map2_nth _ _ _ i 0 0 0) by assumption. reflexivity.
Qed.

Theorem soft_update_shape tau (online target : tree) : same_shape_tree online target ->
  same_shape_tree (soft_update tau online target) target.
Proof.
  intros [Hl Hs]. unfold same_shape_tree, soft_update. rewrite map2_length. split; [lia|].
  revert target Hl Hs. induction online as [|o online IH]; intros [|t target] Hl Hs; cbn in *; try lia; constructor.
  - inversion Hs; subst. cbn in *. unfold map2. rewrite map_length, combine_length. lia.
  - inversion Hs; subst. apply IH; [lia|assumption].
Qed.

Lemma map2_polyak_one (o t : list R) : length o = length t -> map2 (polyak 1) o t = o.
Proof.
  revert t; induction o as [|x o IH]; intros [|y t] H; cbn in *; try lia; [reflexivity|].
  unfold map2 in *. cbn. f_equal; [unfold polyak; cbn; ring|apply IH; lia].
Qed.
Lemma map2_polyak_zero (o t : list R) : length o = length t -> map2 (polyak 0) o t = t.
Proof.
  revert t; induction o as [|x o IH]; intros [|y t] H; cbn in *; try lia; [reflexivity|].
  unfold map2 in *. cbn. f_equal; [unfold polyak; cbn; ring|apply IH; lia].
Qed.

(** tau = 1 is a hard copy, tau = 0 a no-op *)
Theorem polyak_one_is_copy (online target : tree) : same_shape_tree online target ->
  soft_update 1 online target = hard_update online target.
Proof.
  intros [Hl Hs]. unfold soft_update, hard_update.
  revert target Hl Hs. induction online as [|o online IH]; intros [|t target] Hl Hs; cbn in *; try lia; [reflexivity|].
  inversion Hs; subst. cbn in *. unfold map2 at 1. cbn. f_equal; [apply map2_polyak_one; assumption|apply IH; [lia|assumption]].
Qed.
Theorem polyak_zero_is_noop (online target : tree) : same_shape_tree online target ->
  soft_update 0 online target = target.
Proof.
  intros [Hl Hs]. unfold soft_update.
  revert target Hl Hs. induction online as [|o online IH]; intros [|t target] Hl Hs; cbn in *; try lia; [reflexivity|].
  inversion Hs; subst. cbn in *. unfold map2 at 1. cbn. f_equal; [apply map2_polyak_zero; assumption|apply IH; [lia|assumption]].
Qed.

(** during training the target changes only at iterations where the cadence predicate holds,
    and then by exactly the law applied to the online parameters of that iteration *)
Theorem target_changes_only_when_due (law : tree (F := R) -> tree (F := R) -> tree (F := R)) due online : forall n t0 k0 i,
  (i < n)%nat ->
  let tr := target_trace law due online t0 k0 n in
  let prev := match i with O => t0 | S i' => nth i' tr [] end in
  nth i tr [] = if due (k0 + i)%nat then law (online (k0 + i)%nat) prev else prev.
Proof.
  induction n as [|n IH]; intros t0 k0 i Hi; [lia|]. cbn [target_trace]. cbn zeta.
  destruct i as [|i].
  - cbn [nth]. rewrite Nat.add_0_r. reflexivity.
  - cbn [nth]. specialize (IH (if due k0 then law (online k0) t0 else t0) (S k0) i ltac:(lia)). cbn zeta in IH.
    replace (k0 + S i)%nat with (S k0 + i)%nat by lia. rewrite IH.
    destruct i as [|i']; reflexivity.
Qed.

(* ------------------------------------------------------------------ *)
(** ** C10: clipping and tanh scaling keep actions inside the box *)
Theorem clip_in_bounds x lo hi : lo <= hi -> lo <= nclip x lo hi <= hi.
Proof.
  intro H. rewrite nclip_R. split.
  - apply Rmin_glb; [apply Rmax_r|exact H].
  - apply Rmin_r.
Qed.

Theorem explore_in_bounds pi noise low high eps : low <= high ->
  low <= sample_action pi noise low high eps <= high.
Proof. intro H. unfold sample_action. apply clip_in_bounds, H. Qed.

(** before clipping: the policy's action plus Gaussian noise scaled by the noise level times
    half the action range *)
Theorem explore_pre_clip_form pi noise low high eps :
  explore_pre pi noise low high eps = pi + noise * ((high - low) / 2) * eps.
Proof. unfold explore_pre, action_scale, half. rewrite nhalf_R. cbn [nadd nmul nsub R_ops]. field. Qed.

(** the smoothing noise never exceeds noise_clip times half the action range *)
Theorem target_noise_bounded noise c low high eps : low <= high -> 0 <= c ->
  Rabs (target_noise noise c low high eps) <= c * ((high - low) / 2).
Proof.
  intros Hlh Hc. unfold target_noise, action_scale, half. rewrite nhalf_R. cbn [nmul nsub nneg R_ops].
  set (sc := / 2 * (high - low)). assert (Hsc : 0 <= sc) by (unfold sc; lra).
  assert (Hb : - (sc * c) <= sc * c) by nra.
  destruct (clip_in_bounds (noise * sc * eps) (- (sc * c)) (sc * c) Hb) as [H1 H2].
  apply Rabs_le. replace (c * ((high - low) / 2)) with (sc * c) by (unfold sc; field). split; assumption.
Qed.

Theorem target_in_bounds pi noise c low high eps : low <= high ->
  low <= sample_target_action pi noise c low high eps <= high.
Proof. intro H. unfold sample_target_action. apply clip_in_bounds, H. Qed.

Lemma Rtanh_bounds y : -1 < Rtanh y < 1.
Proof.
  unfold Rtanh. pose proof (exp_pos y). pose proof (exp_pos (- y)).
  assert (Hd : 0 < exp y + exp (- y)) by lra.
  split.
  - apply Rmult_lt_reg_r with (exp y + exp (- y)); [exact Hd|]. unfold Rdiv. rewrite Rmult_assoc, Rinv_l by lra. lra.
  - apply Rmult_lt_reg_r with (exp y + exp (- y)); [exact Hd|]. unfold Rdiv. rewrite Rmult_assoc, Rinv_l by lra. lra.
Qed.

(** a tanh-scaled policy maps any network output into the (closed) box *)
Theorem tanh_scaled_in_bounds (y low high : R) : low <= high ->
  low <= Rtanh y * ((high - low) / 2) + (high + low) / 2 <= high.
Proof. intro H. pose proof (Rtanh_bounds y). split; nra. Qed.

(** cross-entropy planner: a candidate built from a truncated-normal draw |z| <= 2 stays in the box *)
Theorem cem_candidate_in_bounds mean var lb ub z : lb <= mean <= ub -> 0 <= var -> -2 <= z <= 2 ->
  lb <= cem_candidate mean var lb ub z <= ub.
Proof.
  intros [Hl Hu] Hv Hz. unfold cem_candidate, half. rewrite nhalf_R. cbn [nmul nsub nadd nsqrt R_ops]. rewrite !nmin_R.
  set (l := / 2 * (mean - lb)). set (u := / 2 * (ub - mean)).
  assert (Hl0 : 0 <= l) by (unfold l; lra). assert (Hu0 : 0 <= u) by (unfold u; lra).
  set (m := Rmin (Rmin (l * l) (u * u)) var).
  assert (Hm0 : 0 <= m) by (unfold m; repeat apply Rmin_glb; nra).
  assert (Hml : m <= l * l) by (unfold m; eapply Rle_trans; [apply Rmin_l|apply Rmin_l]).
  assert (Hmu : m <= u * u) by (unfold m; eapply Rle_trans; [apply Rmin_l|apply Rmin_r]).
  assert (Hsl : sqrt m <= l) by (rewrite <- (sqrt_square l Hl0); apply sqrt_le_1; nra).
  assert (Hsu : sqrt m <= u) by (rewrite <- (sqrt_square u Hu0); apply sqrt_le_1; nra).
  pose proof (sqrt_pos m). unfold l, u in *. split; nra.
Qed.

(** applying the soft update d times is one soft update with coefficient 1 - (1 - tau)^d: it equals the documented
    single step only for d = 1, tau in {0, 1} or online = target *)
Lemma polyak_R (tau o t : R) : polyak tau o t = tau * o + (1 - tau) * t.
Proof. reflexivity. Qed.

Lemma polyak_iter (tau o t : R) (d : nat) :
  Nat.iter d (polyak tau o) t = polyak (1 - (1 - tau) ^ d) o t.
Proof.
  induction d as [|d IH].
  - change (Nat.iter 0 (polyak tau o) t) with t. rewrite polyak_R. simpl pow. ring.
  - change (Nat.iter (S d) (polyak tau o) t) with (polyak tau o (Nat.iter d (polyak tau o) t)).
    rewrite IH. rewrite !polyak_R. simpl pow. ring.
Qed.

Lemma polyak_twice_refuted : exists tau o t : R, 0 < tau < 1 /\ polyak tau o (polyak tau o t) <> polyak tau o t.
Proof.
  exists (1 / 2), 1, 0. split; [lra|]. rewrite !polyak_R. lra.
Qed.
