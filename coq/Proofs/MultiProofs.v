(** MultiTaskReplayBuffer: additions go only to the selected task; sampling
    chooses a task that already has data (C02). *)
From Coq Require Import ZArith List Bool Arith Lia.
From RLV Require Import Model.Buffers Proofs.RingProofs.
Import ListNotations.

Section MultiProofs.
  Context {B X : Type}.
  Variable badd : B -> X -> B.
  Variable b0 : B.

  (** Ghost specification: one append-only history per task. *)
  Definition hist_add (hs : list (list X)) (t : nat) (x : X) : list (list X) :=
    match nth_error hs t with Some h => upd hs t (h ++ [x]) | None => hs end.

  Definition MInv (m : mt B) (hs : list (list X)) : Prop :=
    length (bufs m) = length hs /\ selected m < Nat.max 1 (length hs) /\
    (forall t h, nth_error hs t = Some h -> nth_error (bufs m) t = Some (fold_left badd h b0)) /\
    (forall t, In t (active m) <-> exists h, nth_error hs t = Some h /\ h <> []).

  Lemma nth_error_upd {A} (l : list A) i j x :
    nth_error (upd l i x) j = if Nat.eqb i j then (if Nat.ltb i (length l) then Some x else nth_error l j) else nth_error l j.
  Proof.
    revert i j; induction l as [|h t IH]; intros [|i] [|j]; cbn; auto.
    - destruct (Nat.eqb i j); reflexivity.
    - rewrite IH. destruct (Nat.eqb i j); auto.
  Qed.

  Lemma set_add_in s t u : In u (set_add s t) <-> u = t \/ In u s.
  Proof.
    induction s as [|h r IH]; cbn [set_add].
    - cbn. intuition.
    - destruct (Nat.eqb_spec t h) as [->|Hne].
      + cbn. intuition.
      + destruct (Nat.ltb t h); cbn [In]; [intuition|]. rewrite IH. intuition.
  Qed.

  Lemma repeat_nth_error {A} (x : A) n t : t < n -> nth_error (repeat x n) t = Some x.
  Proof. revert t; induction n; intros [|t] H; cbn; try lia; auto. apply IHn; lia. Qed.

  Lemma minv_init n : MInv (mt_init b0 n) (repeat [] n).
  Proof.
    unfold MInv, mt_init; cbn [bufs selected active]. rewrite !repeat_length. repeat split.
    - lia.
    - intros t h Ht.
      assert (t < n) by (rewrite <- (repeat_length (@nil X) n); apply nth_error_Some; congruence).
      rewrite repeat_nth_error in Ht by assumption. injection Ht as <-.
      rewrite repeat_nth_error by assumption. reflexivity.
    - intros [].
    - intros (h & Ht & Hne).
      assert (t < n) by (rewrite <- (repeat_length (@nil X) n); apply nth_error_Some; congruence).
      rewrite repeat_nth_error in Ht by assumption. congruence.
  Qed.

  (** select_task accepts exactly the ids 0 .. n-1 and changes nothing else. *)
  Theorem mt_select_spec (m : mt B) t :
    (mt_select m t = None <-> (t < 0 \/ Z.of_nat (length (bufs m)) <= t)%Z) /\
    (forall m', mt_select m t = Some m' ->
       bufs m' = bufs m /\ active m' = active m /\ selected m' = Z.to_nat t /\ selected m' < length (bufs m)).
  Proof using Type.
    clear badd b0. unfold mt_select.
    destruct (Z.leb_spec 0 t); destruct (Z.ltb_spec t (Z.of_nat (length (bufs m)))); cbn [andb].
    all: split; [split; [intro H'; try discriminate; lia | intro; try reflexivity; lia] | ].
    all: intros m' Hm; try discriminate.
    injection Hm as <-. cbn. repeat split. lia.
  Qed.

  Lemma minv_select (m : mt B) hs t m' : MInv m hs -> mt_select m t = Some m' -> MInv m' hs.
  Proof.
    intros (Hl & Hs & Hb & Ha) H. destruct (mt_select_spec m t) as [_ Hsp].
    destruct (Hsp m' H) as (E1 & E2 & E3 & E4). unfold MInv. rewrite E1, E2. repeat split; auto.
    - rewrite <- Hl. lia.
    - apply Ha.
    - apply Ha.
  Qed.

  (** add_sample changes only the selected task's buffer (and marks it active). *)
  Theorem mt_add_isolation m x t :
    t <> selected m -> nth_error (bufs (mt_add badd m x)) t = nth_error (bufs m) t.
  Proof.
    intro Hne. unfold mt_add. destruct (nth_error (bufs m) (selected m)); [|reflexivity]. cbn.
    rewrite nth_error_upd. destruct (Nat.eqb_spec (selected m) t); [congruence|reflexivity].
  Qed.

  Lemma minv_add m hs x :
    selected m < length hs -> MInv m hs -> MInv (mt_add badd m x) (hist_add hs (selected m) x).
  Proof.
    intros Hsel (Hl & Hs & Hb & Ha). unfold mt_add, hist_add.
    destruct (nth_error hs (selected m)) as [h|] eqn:Eh; [|apply nth_error_None in Eh; lia].
    rewrite (Hb _ _ Eh). unfold MInv; cbn [bufs selected active]. rewrite !upd_length. repeat split; auto.
    - intros t h' Ht. rewrite nth_error_upd in Ht. rewrite nth_error_upd.
      destruct (Nat.eqb_spec (selected m) t) as [<-|Hne].
      + assert (Hlt : selected m <? length hs = true) by (apply Nat.ltb_lt; lia).
        rewrite Hlt in Ht. injection Ht as <-.
        assert (Hlt' : selected m <? length (bufs m) = true) by (apply Nat.ltb_lt; lia).
        rewrite Hlt'. rewrite fold_left_app. reflexivity.
      + apply Hb, Ht.
    - intro Hin. apply set_add_in in Hin. destruct Hin as [->|Hin].
      + exists (h ++ [x]). rewrite nth_error_upd, Nat.eqb_refl.
        assert (Hlt : selected m <? length hs = true) by (apply Nat.ltb_lt; lia). rewrite Hlt.
        split; [reflexivity|]. destruct h; discriminate.
      + apply Ha in Hin. destruct Hin as (h' & Ht & Hne).
        destruct (Nat.eq_dec (selected m) t) as [<-|Hd].
        * exists (h ++ [x]). rewrite nth_error_upd, Nat.eqb_refl.
          assert (Hlt : selected m <? length hs = true) by (apply Nat.ltb_lt; lia). rewrite Hlt.
          split; [reflexivity|]. destruct h; discriminate.
        * exists h'. rewrite nth_error_upd. destruct (Nat.eqb_spec (selected m) t); [congruence|]. auto.
    - intros (h' & Ht & Hne). apply set_add_in. rewrite nth_error_upd in Ht.
      destruct (Nat.eqb_spec (selected m) t) as [<-|Hd]; [left; reflexivity|].
      right. apply Ha. exists h'. auto.
  Qed.

  (** sample_batch draws its task among the tasks that already received data,
      and the batch comes from that single task's buffer. *)
  Theorem mt_choose_active m hs pos t :
    MInv m hs -> snd (mt_choose m pos) = Some t ->
    exists h, nth_error hs t = Some h /\ h <> [] /\
              nth_error (bufs (fst (mt_choose m pos))) t = Some (fold_left badd h b0).
  Proof.
    intros (Hl & Hs & Hb & Ha) H. unfold mt_choose in *. cbn in *.
    apply nth_error_In in H. apply Ha in H. destruct H as (h & Ht & Hne).
    exists h. repeat split; auto.
  Qed.

  (** All histories of select / add / sample operations. *)
  Inductive gop := GSelect (t : Z) | GAdd (x : X) | GChoose (pos : nat).
  Definition gstep (st : mt B * list (list X)) (o : gop) : mt B * list (list X) :=
    let '(m, hs) := st in
    match o with
    | GSelect t => match mt_select m t with Some m' => (m', hs) | None => (m, hs) end
    | GAdd x => (mt_add badd m x, hist_add hs (selected m) x)
    | GChoose pos => (fst (mt_choose m pos), hs)
    end.

  Lemma hist_add_length hs t x : length (hist_add hs t x) = length hs.
  Proof. unfold hist_add. destruct (nth_error hs t); [apply upd_length|reflexivity]. Qed.

  Lemma minv_step st o : 1 <= length (snd st) -> MInv (fst st) (snd st) ->
    MInv (fst (gstep st o)) (snd (gstep st o)) /\ length (snd (gstep st o)) = length (snd st).
  Proof.
    destruct st as [m hs]; cbn [fst snd]. intros Hn HI. destruct o as [t|x|pos]; cbn [gstep].
    - destruct (mt_select m t) as [m'|] eqn:E; cbn [fst snd]; split; auto.
      eapply minv_select; eauto.
    - cbn [fst snd]. split; [|apply hist_add_length]. apply minv_add; [|exact HI].
      destruct HI as (_ & Hs & _). lia.
    - cbn [fst snd]. split; auto.
  Qed.

  Theorem minv_run n ops : 1 <= n ->
    let st := fold_left gstep ops (mt_init b0 n, repeat [] n) in
    MInv (fst st) (snd st).
  Proof.
    intro Hn. cbn zeta.
    assert (G : forall ops st, 1 <= length (snd st) -> MInv (fst st) (snd st) ->
              MInv (fst (fold_left gstep ops st)) (snd (fold_left gstep ops st))).
    { clear ops. induction ops as [|o ops IH]; intros st Hl HI; cbn [fold_left]; [exact HI|].
      destruct (minv_step st o Hl HI) as [HI' Hl']. apply IH; [rewrite Hl'; exact Hl|exact HI']. }
    apply G; cbn [fst snd]; [rewrite repeat_length; exact Hn|apply minv_init].
  Qed.
End MultiProofs.
