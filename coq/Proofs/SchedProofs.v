From Coq Require Import List Arith Bool Lia.
From RLV Require Import Model.Sched.
Import ListNotations.

Lemma sched_run_final_ge (rule : warm_rule) (warm budget : nat) (lens : list nat) : forall g,
  g <= snd (sched_run rule warm budget lens g).
Proof.
  induction lens as [|L rest IH]; intros g; cbn [sched_run]; [cbn; lia|].
  destruct (Nat.leb budget g); [cbn; lia|].
  specialize (IH (g + Nat.min L (budget - g))).
  destruct (sched_run rule warm budget rest (g + Nat.min L (budget - g))) as [us gf]. cbn [snd] in *. lia.
Qed.

Lemma sched_run_final_le (rule : warm_rule) (warm budget : nat) (lens : list nat) : forall g,
  g <= budget -> snd (sched_run rule warm budget lens g) <= budget.
Proof.
  induction lens as [|L rest IH]; intros g Hg; cbn [sched_run]; [cbn; lia|].
  destruct (Nat.leb budget g); [cbn; lia|].
  assert (Hle : g + Nat.min L (budget - g) <= budget) by lia.
  specialize (IH _ Hle).
  destruct (sched_run rule warm budget rest (g + Nat.min L (budget - g))) as [us gf]. cbn [snd] in *. lia.
Qed.

(** the updates of a whole scheduled run under the repository's rule: exactly the executed steps from the warm-up on *)
Theorem sched_pass_through_updates (warm budget : nat) (lens : list nat) : forall g,
  let r := sched_run PassThrough warm budget lens g in
  fst r = filter (fun s => Nat.leb warm s) (seq g (snd r - g)).
Proof.
  induction lens as [|L rest IH]; intros g; cbn [sched_run].
  - cbn [fst snd]. rewrite Nat.sub_diag. reflexivity.
  - destruct (Nat.leb budget g); [cbn [fst snd]; rewrite Nat.sub_diag; reflexivity|].
    set (len := Nat.min L (budget - g)).
    specialize (IH (g + len)). pose proof (sched_run_final_ge PassThrough warm budget rest (g + len)) as Hge.
    destruct (sched_run PassThrough warm budget rest (g + len)) as [us gf]. cbn [fst snd] in *.
    rewrite IH. unfold backbone_updates, ls_for.
    rewrite <- filter_app, <- seq_app. f_equal. f_equal. lia.
Qed.

Theorem sched_pass_through_no_early_update (warm budget : nat) (lens : list nat) (g : nat) :
  Forall (fun s => warm <= s) (fst (sched_run PassThrough warm budget lens g)).
Proof.
  pose proof (sched_pass_through_updates warm budget lens g) as H. cbn zeta in H. rewrite H.
  apply Forall_forall. intros s Hs. apply filter_In in Hs. destruct Hs as [_ Hs]. apply Nat.leb_le in Hs. exact Hs.
Qed.

(** handing over the remaining exploration steps: the absolute counter is compared with a shrunk threshold *)
Theorem sched_remaining_refuted :
  exists warm budget lens, ~ Forall (fun s => warm <= s) (fst (sched_run Remaining warm budget lens 0)).
Proof.
  exists 4, 10, [2; 2]. vm_compute. intros H. inversion H as [|x l Hx Hl]; subst. lia.
Qed.

Example sched_nonvacuous : sched_run PassThrough 3 7 [2; 4; 5] 0 = ([3; 4; 5; 6], 7).
Proof. vm_compute. reflexivity. Qed.
