(** C08 — importance weights lie in (0,1], have maximum 1 and are non-increasing in the
    priority; LAP / PER priorities are positive and non-decreasing in |delta| (over R). *)
From Coq Require Import Reals List Lra Lia.
From RLV Require Import Model.Num Model.PrioNum.
Import ListNotations.
Local Open Scope R_scope.

Lemma nth_map' {A B} (f : A -> B) l k d d' : (k < length l)%nat -> nth k (map f l) d' = f (nth k l d).
Proof. revert k; induction l as [|x t IH]; intros [|k] H; cbn in *; try lia; auto. apply IH; lia. Qed.

Lemma Rleb_true a b : Rleb a b = true <-> a <= b.
Proof. unfold Rleb. destruct (Rle_dec a b); split; intros; try discriminate; auto; try lra. Qed.
Lemma Rleb_false a b : Rleb a b = false <-> b < a.
Proof. unfold Rleb. destruct (Rle_dec a b); split; intros; try discriminate; auto; try lra. Qed.

Lemma nmax_R a b : nmax (F := R) a b = Rmax a b.
Proof.
  unfold nmax; cbn. unfold Rmax, Rleb. destruct (Rle_dec a b); reflexivity.
Qed.

Lemma Rpow_pos x a : 0 < x -> 0 < Rpow x a.
Proof. intro H. unfold Rpow. destruct (Req_EM_T x 0); [lra|]. unfold Rpower. apply exp_pos. Qed.

Lemma Rpow_nonneg x a : 0 <= x -> 0 <= Rpow x a.
Proof.
  intro H. unfold Rpow. destruct (Req_EM_T x 0).
  - destruct (Req_EM_T a 0); lra.
  - left. unfold Rpower. apply exp_pos.
Qed.

(** x ** a is non-decreasing in x >= 0 for a >= 0 ... *)
Lemma Rpow_mono x y a : 0 <= x <= y -> 0 <= a -> Rpow x a <= Rpow y a.
Proof.
  intros [Hx Hxy] Ha. unfold Rpow.
  destruct (Req_EM_T x 0) as [Ex|Nx]; destruct (Req_EM_T y 0) as [Ey|Ny]; try lra.
  - destruct (Req_EM_T a 0) as [Ea|Na].
    + subst a. rewrite Rpower_O by lra. lra.
    + left. unfold Rpower. apply exp_pos.
  - apply Rle_Rpower_l; lra.
Qed.

(** ... and non-increasing in x > 0 for a <= 0. *)
Lemma Rpow_anti x y b : 0 < x <= y -> 0 <= b -> Rpow y (- b) <= Rpow x (- b).
Proof.
  intros [Hx Hxy] Hb. unfold Rpow.
  destruct (Req_EM_T x 0); destruct (Req_EM_T y 0); try lra.
  rewrite !Rpower_Ropp. apply Rinv_le_contravar.
  - unfold Rpower; apply exp_pos.
  - apply Rle_Rpower_l; lra.
Qed.

(* ---- maximum of a list ---- *)
Lemma fold_nmax_ge (l : list R) : forall d, d <= fold_left nmax l d /\ Forall (fun x => x <= fold_left nmax l d) l.
Proof.
  induction l as [|x t IH]; intro d; cbn [fold_left]; [split; [lra|constructor]|].
  destruct (IH (nmax d x)) as [H1 H2]. rewrite nmax_R in *.
  pose proof (Rmax_l d x). pose proof (Rmax_r d x). split; [lra|constructor; [lra|exact H2]].
Qed.
Lemma fold_nmax_in (l : list R) : forall d, In (fold_left nmax l d) (d :: l).
Proof.
  induction l as [|x t IH]; intro d; cbn [fold_left]; [left; reflexivity|].
  destruct (IH (nmax d x)) as [H|H]; [|right; right; exact H].
  rewrite nmax_R in *. unfold Rmax in H at 1. destruct (Rle_dec d x); [right; left|left]; exact H.
Qed.

Theorem is_weights_range n ps beta :
  ps <> [] -> Forall (fun p => 0 < p) ps -> 0 < n -> 0 <= beta ->
  let w := is_weights n ps beta in
  Forall (fun x => 0 < x <= 1) w /\ In 1 w /\ length w = length ps.
Proof.
  intros Hne Hp Hn Hb. cbn zeta. unfold is_weights.
  set (raw := is_raw n ps beta).
  assert (Hs : 0 < nsum ps).
  { unfold nsum. assert (G : forall l d, Forall (fun p => 0 < p) l -> 0 <= d -> (l <> [] \/ 0 < d) -> 0 < fold_left nadd l d).
    { induction l as [|x t IH]; intros d Hl Hd Hor; cbn [fold_left].
      - destruct Hor; [congruence|assumption].
      - inversion Hl; subst. apply IH; [assumption|cbn; lra|right; cbn; lra]. }
    apply G; [exact Hp|cbn; lra|left; exact Hne]. }
  assert (Hraw : Forall (fun x => 0 < x) raw).
  { unfold raw, is_raw. apply Forall_map. eapply Forall_impl; [|exact Hp]. cbn. intros p Hp0.
    apply Rpow_pos. apply Rdiv_lt_0_compat; [apply Rmult_lt_0_compat|]; assumption. }
  assert (Hrne : raw <> []) by (unfold raw, is_raw; destruct ps; [congruence|discriminate]).
  destruct raw as [|r0 rt] eqn:Er; [congruence|]. unfold nmaxl.
  destruct (fold_nmax_ge rt r0) as [H1 H2]. pose proof (fold_nmax_in rt r0) as Hin.
  set (m := fold_left nmax rt r0) in *.
  assert (Hm : 0 < m) by (inversion Hraw; subst; lra).
  assert (Hall : Forall (fun x => x <= m) (r0 :: rt)) by (constructor; assumption).
  repeat split.
  - apply Forall_map. rewrite Forall_forall in *. intros x Hx. cbn.
    specialize (Hraw x Hx). specialize (Hall x Hx). split.
    + apply Rdiv_lt_0_compat; assumption.
    + apply Rmult_le_reg_r with m; [exact Hm|]. unfold Rdiv. rewrite Rmult_assoc, Rinv_l by lra. lra.
  - apply in_map_iff. exists m. split; [cbn; field; lra|exact Hin].
  - rewrite map_length. rewrite <- Er. unfold raw, is_raw. rewrite map_length. reflexivity.
Qed.

(** Non-increasing in the priority: a larger priority never gets a larger weight. *)
Theorem is_weights_antitone n ps beta i j :
  Forall (fun p => 0 < p) ps -> 0 < n -> 0 <= beta ->
  (i < length ps)%nat -> (j < length ps)%nat -> nth i ps 0 <= nth j ps 0 ->
  nth j (is_weights n ps beta) 0 <= nth i (is_weights n ps beta) 0.
Proof.
  intros Hp Hn Hb Hi Hj Hle. unfold is_weights.
  set (raw := is_raw n ps beta). set (m := nmaxl raw).
  assert (Hs : 0 < nsum ps).
  { unfold nsum. assert (G : forall l d, Forall (fun p => 0 < p) l -> 0 <= d -> (l <> [] \/ 0 < d) -> 0 < fold_left nadd l d).
    { induction l as [|x t IH]; intros d Hl Hd Hor; cbn [fold_left].
      - destruct Hor; [congruence|assumption].
      - inversion Hl; subst. apply IH; [assumption|cbn; lra|right; cbn; lra]. }
    apply G; [exact Hp|cbn; lra|left; destruct ps; [cbn in Hi; lia|discriminate]]. }
  assert (Hlen : length raw = length ps) by (unfold raw, is_raw; apply map_length).
  assert (Hnth : forall k, (k < length ps)%nat ->
            nth k raw 0 = Rpow (n * nth k ps 0 / nsum ps) (- beta)).
  { intros k Hk. unfold raw, is_raw. cbn zeta. rewrite (nth_map' _ ps k 0 0 Hk). reflexivity. }
  assert (Hraw : Forall (fun x => 0 < x) raw).
  { unfold raw, is_raw. apply Forall_map. eapply Forall_impl; [|exact Hp]. cbn. intros p Hp0.
    apply Rpow_pos. apply Rdiv_lt_0_compat; [apply Rmult_lt_0_compat|]; assumption. }
  assert (Hm : 0 < m).
  { unfold m, nmaxl. destruct raw as [|r0 rt]; [cbn in Hlen; lia|].
    destruct (fold_nmax_ge rt r0) as [H1 _]. inversion Hraw; subst. lra. }
  assert (Hmap : forall k, (k < length ps)%nat -> nth k (map (fun x => (x / m)%num) raw) 0 = nth k raw 0 / m).
  { intros k Hk. rewrite (nth_map' _ raw k 0 0) by lia. reflexivity. }
  rewrite !Hmap by assumption. rewrite !Hnth by assumption.
  apply Rmult_le_compat_r; [left; apply Rinv_0_lt_compat; exact Hm|].
  rewrite Forall_forall in Hp.
  assert (Hpi : 0 < nth i ps 0) by (apply Hp, nth_In; exact Hi).
  apply Rpow_anti; [|exact Hb]. split.
  - apply Rdiv_lt_0_compat; [apply Rmult_lt_0_compat|]; assumption.
  - unfold Rdiv. apply Rmult_le_compat_r; [left; apply Rinv_0_lt_compat; exact Hs|].
    apply Rmult_le_compat_l; lra.
Qed.

(** LAP priority max(|delta|, p_min)^alpha is positive and non-decreasing in |delta|. *)
Theorem lap_priority_pos_mono d d' pmin alpha :
  0 < pmin -> 0 <= alpha -> 0 <= d <= d' ->
  0 < lap_priority d pmin alpha /\ lap_priority d pmin alpha <= lap_priority d' pmin alpha.
Proof.
  intros Hp Ha [Hd Hdd]. unfold lap_priority. rewrite !nmax_R. cbn [npow R_ops].
  pose proof (Rmax_r d pmin). pose proof (Rmax_r d' pmin).
  split; [apply Rpow_pos; lra|]. apply Rpow_mono; [|exact Ha].
  split; [lra|]. apply Rle_max_compat_r; exact Hdd.
Qed.

(** PER priority |delta|^alpha + eps is positive and non-decreasing in |delta|. *)
Theorem per_priority_pos_mono d d' alpha eps :
  0 < eps -> 0 <= alpha -> 0 <= d <= d' ->
  0 < per_priority d alpha eps /\ per_priority d alpha eps <= per_priority d' alpha eps.
Proof.
  intros He Ha [Hd Hdd]. unfold per_priority. cbn [npow nadd R_ops].
  pose proof (Rpow_nonneg d alpha Hd). split; [lra|].
  apply Rplus_le_compat_r, Rpow_mono; [split; assumption|exact Ha].
Qed.
