From Coq Require Import List Arith Bool Lia.
From RLV Require Import Model.Loop Model.Collect.
Import ListNotations.

(** invariant between a sub-environment and the observation the collector holds for it *)
Definition okv (v : venv) (o : obs) : Prop :=
  v_pending v = false /\ e_done (v_env v) = false /\ e_started (v_env v) = true /\ o = (e_ep (v_env v), e_t (v_env v)).

Definition succ_in_episode (o : obs) : obs := (fst o, S (snd o)).
Definition row_next (r : prow) : obs := if p_term r || p_trunc r then (S (fst (p_obs r)), 0) else p_boot r.
Definition boot_ok (r : prow) : Prop := p_boot r = succ_in_episode (p_obs r).

(** the rows of consecutive vector steps form a chain starting from [cur]: every row starts from the
    observation its environment returned last, bootstraps from the successor inside the same
    episode, and the row after an episode end starts from the next episode's reset observation *)
Fixpoint rows_ok (cur : list obs) (rows : list (list prow)) : Prop :=
  match rows with
  | [] => True
  | r :: rest => map p_obs r = cur /\ Forall boot_ok r /\ rows_ok (map row_next r) rest
  end.

Lemma vstep_same v o : okv v o ->
  let '(v', out) := vstep SameStep v in
  okv v' (vo_obs out) /\
  match vo_final out with Some x => x | None => vo_obs out end = succ_in_episode o /\
  vo_obs out = (if vo_term out || vo_trunc out then (S (fst o), 0) else succ_in_episode o) /\
  vo_reward out = S (e_steps (v_env v)).
Proof.
  intros (Hp & Hd & Hst & Ho). unfold vstep, env_step.
  destruct (script_at (v_env v) (e_ep (v_env v))) as [L k] eqn:Hs.
  set (fin := Nat.leb L (S (e_t (v_env v)))).
  destruct k; destruct fin eqn:Hf; cbn [andb orb fst snd vo_obs vo_final vo_term vo_trunc vo_reward];
    unfold env_reset; cbn [e_started e_ep e_t e_done v_env v_pending vo_obs vo_final vo_term vo_trunc vo_reward orb andb];
    subst o; unfold okv, succ_in_episode; cbn [fst snd v_env v_pending e_done e_ep e_t e_started]; rewrite ?Hst;
    repeat split; try reflexivity; try assumption.
Qed.

Lemma step_same_vec : forall vs cur, Forall2 okv vs cur ->
  let '(vs1, outs) := vec_step SameStep vs in
  let next := map vo_obs outs in
  let boot := patch ByIndex next (map vo_final outs) in
  let rows := mk_rows cur outs boot in
  Forall2 okv vs1 next /\ map p_obs rows = cur /\ Forall boot_ok rows /\ map row_next rows = next.
Proof.
  unfold vec_step. induction 1 as [|v o vs cur Hv Hrest IH]; cbn [map]; [repeat split; constructor|].
  pose proof (vstep_same v o Hv) as Hs. destruct (vstep SameStep v) as [v' out].
  destruct Hs as (Hok & Hboot & Hnext & _).
  cbn [fst snd map patch combine mk_rows] in *.
  destruct IH as (IH1 & IH2 & IH3 & IH4).
  repeat split.
  - constructor; assumption.
  - cbn [map p_obs]. f_equal. exact IH2.
  - constructor; [|exact IH3]. unfold boot_ok. cbn [p_boot p_obs fst snd]. exact Hboot.
  - cbn [map]. f_equal; [|exact IH4]. unfold row_next. cbn [p_term p_trunc p_obs p_boot fst snd].
    rewrite Hboot. rewrite Hnext. reflexivity.
Qed.

(** ppo.collect_trajectories as written (patch by environment index, next iteration acts on next_obs) *)
Theorem ppo_rows_chain : forall T vs cur, Forall2 okv vs cur ->
  let '(rows, vs', last) := ppo_collect ByIndex CarryNext T vs cur in
  rows_ok cur rows /\ Forall2 okv vs' last /\ length rows = T.
Proof.
  induction T as [|T IH]; intros vs cur H; cbn [ppo_collect].
  { cbn [rows_ok length]. repeat split. exact H. }
  pose proof (step_same_vec vs cur H) as Hs. destruct (vec_step SameStep vs) as [vs1 outs].
  cbv zeta in Hs. destruct Hs as (Hok & Hobs & Hboot & Hnext).
  specialize (IH vs1 (map vo_obs outs) Hok).
  destruct (ppo_collect ByIndex CarryNext T vs1 (map vo_obs outs)) as [[rows vs2] last].
  destruct IH as (IHr & IHv & IHl).
  cbn [rows_ok length]. repeat split; try assumption; [|lia].
  rewrite Hnext. exact IHr.
Qed.

Lemma vinit_ok script : let '(v, o) := vinit script in okv v o.
Proof. unfold vinit, env_reset, env_init, okv. cbn. repeat split. Qed.

Lemma vec_init_ok scripts : let '(vs, o) := vec_init scripts in Forall2 okv vs o.
Proof.
  unfold vec_init. induction scripts as [|s rest IH]; cbn [map]; [constructor|].
  pose proof (vinit_ok s) as H. destruct (vinit s) as [v o]. cbn [fst snd]. constructor; assumption.
Qed.

Theorem ppo_run_chain : forall T scripts,
  let '(rows, _, _) := ppo_run ByIndex CarryNext T scripts in
  rows_ok (map (fun _ => (0, 0)) scripts) rows /\ length rows = T.
Proof.
  intros T scripts. unfold ppo_run. pose proof (vec_init_ok scripts) as H.
  assert (Hinit : snd (vec_init scripts) = map (fun _ => (0, 0)) scripts).
  { unfold vec_init. cbn [snd]. rewrite map_map. apply map_ext. intros s. reflexivity. }
  destruct (vec_init scripts) as [vs o]. cbn [snd] in Hinit. subst o.
  pose proof (ppo_rows_chain T vs _ H) as Hc.
  destruct (ppo_collect ByIndex CarryNext T vs (map (fun _ => (0, 0)) scripts)) as [[rows vs'] last].
  destruct Hc as (Hr & _ & Hl). split; assumption.
Qed.

(** the three variants are refuted with concrete scripts *)
Definition boot_ok_b (r : prow) : bool :=
  Nat.eqb (fst (p_boot r)) (fst (p_obs r)) && Nat.eqb (snd (p_boot r)) (S (snd (p_obs r))).
Definition all_boot_ok (rows : list (list prow)) : bool := forallb (forallb boot_ok_b) rows.
Definition starts_chain (rows : list (list prow)) : bool :=
  match rows with
  | r1 :: r2 :: _ => forallb (fun x => let o := row_next (fst x) in Nat.eqb (fst o) (fst (p_obs (snd x))) && Nat.eqb (snd o) (snd (p_obs (snd x)))) (combine r1 r2)
  | _ => true
  end.

Lemma no_patch_refuted : exists T scripts, let '(rows, _, _) := ppo_run NoPatch CarryNext T scripts in all_boot_ok rows = false.
Proof. exists 1, [[(1, Trunc)]]. vm_compute. reflexivity. Qed.

Lemma filtered_position_refuted : exists T scripts, let '(rows, _, _) := ppo_run ByFilteredPosition CarryNext T scripts in all_boot_ok rows = false.
Proof. exists 1, [[(3, Term)]; [(1, Trunc)]]. vm_compute. reflexivity. Qed.

Lemma carry_patched_refuted : exists T scripts, let '(rows, _, _) := ppo_run ByIndex CarryPatched T scripts in starts_chain rows = false.
Proof. exists 2, [[(1, Term)]]. vm_compute. reflexivity. Qed.

Example ppo_nonvacuous : let '(rows, _, _) := ppo_run ByIndex CarryNext 3 [[(2, Term)]; [(1, Trunc)]] in
  all_boot_ok rows = true /\ starts_chain rows = true /\ length rows = 3.
Proof. vm_compute. repeat split. Qed.

(* ------------------------------------------------------------------ *)
(** a2c.collect_trajectories under NEXT_STEP autoreset *)
Definition okva (v : venv) (o : obs) : Prop :=
  e_started (v_env v) = true /\ v_pending v = e_done (v_env v) /\ o = (e_ep (v_env v), e_t (v_env v)).

Definition a_next (p : bool) (r : arow) : obs := if p then (S (fst (a_obs r)), 0) else succ_in_episode (a_obs r).
Definition a_pend (p : bool) (r : arow) : bool := if p then false else a_term r || a_trunc r.
Definition reset_row_ok (p : bool) (r : arow) : Prop := p = true -> a_reward r = 0 /\ a_term r = false /\ a_trunc r = false.

(** chain of rows: each row starts from the observation returned last; the row after an episode
    end is the wrapper's reset step (reward 0, no flags) and leads to the new episode's reset observation *)
Fixpoint a_rows_ok (cur : list obs) (pend : list bool) (rows : list (list arow)) : Prop :=
  match rows with
  | [] => True
  | r :: rest => map a_obs r = cur /\ Forall2 reset_row_ok pend r /\
                 a_rows_ok (map (fun x => a_next (fst x) (snd x)) (combine pend r)) (map (fun x => a_pend (fst x) (snd x)) (combine pend r)) rest
  end.

Lemma vstep_next v o : okva v o ->
  let '(v', out) := vstep NextStep v in
  let r := {| a_obs := o; a_reward := vo_reward out; a_term := vo_term out; a_trunc := vo_trunc out |} in
  okva v' (vo_obs out) /\ reset_row_ok (v_pending v) r /\ vo_obs out = a_next (v_pending v) r /\ v_pending v' = a_pend (v_pending v) r.
Proof.
  intros (Hst & Hp & Ho). unfold vstep. destruct (v_pending v) eqn:Hpend.
  - unfold env_reset. rewrite Hst. subst o. unfold okva, reset_row_ok, a_next, a_pend.
    cbn [v_env v_pending e_started e_done e_ep e_t vo_obs vo_reward vo_term vo_trunc a_obs a_reward a_term a_trunc fst snd].
    repeat split; reflexivity.
  - unfold env_step. destruct (script_at (v_env v) (e_ep (v_env v))) as [L k].
    subst o. unfold okva, reset_row_ok, a_next, a_pend, succ_in_episode.
    cbn [v_env v_pending e_started e_done e_ep e_t vo_obs vo_reward vo_term vo_trunc a_obs a_reward a_term a_trunc fst snd].
    repeat split; try assumption; try reflexivity.
    all: match goal with Hc : false = true |- _ => discriminate Hc end.
Qed.

Lemma step_next_vec : forall vs cur, Forall2 okva vs cur ->
  let '(vs1, outs) := vec_step NextStep vs in
  let pend := map v_pending vs in
  let rows := map (fun x => {| a_obs := fst x; a_reward := vo_reward (snd x); a_term := vo_term (snd x); a_trunc := vo_trunc (snd x) |}) (combine cur outs) in
  Forall2 okva vs1 (map vo_obs outs) /\ map a_obs rows = cur /\ Forall2 reset_row_ok pend rows /\
  map (fun x => a_next (fst x) (snd x)) (combine pend rows) = map vo_obs outs /\
  map (fun x => a_pend (fst x) (snd x)) (combine pend rows) = map v_pending vs1.
Proof.
  unfold vec_step. induction 1 as [|v o vs cur Hv Hrest IH]; cbn [map combine]; [repeat split; constructor|].
  pose proof (vstep_next v o Hv) as Hs. destruct (vstep NextStep v) as [v' out].
  cbv zeta in Hs. destruct Hs as (Hok & Hreset & Hnext & Hpend).
  cbn [fst snd map combine] in *. destruct IH as (IH1 & IH2 & IH3 & IH4 & IH5).
  repeat split.
  - constructor; assumption.
  - cbn [a_obs]. f_equal. exact IH2.
  - constructor; assumption.
  - f_equal; [symmetry; exact Hnext | exact IH4].
  - f_equal; [symmetry; exact Hpend | exact IH5].
Qed.

Theorem a2c_rows_chain : forall T vs cur, Forall2 okva vs cur ->
  let '(rows, vs', last) := a2c_collect T vs cur in
  a_rows_ok cur (map v_pending vs) rows /\ Forall2 okva vs' last /\ length rows = T.
Proof.
  induction T as [|T IH]; intros vs cur H; cbn [a2c_collect].
  { cbn [a_rows_ok length]. repeat split. exact H. }
  pose proof (step_next_vec vs cur H) as Hs. destruct (vec_step NextStep vs) as [vs1 outs].
  cbv zeta in Hs. destruct Hs as (Hok & Hobs & Hreset & Hnext & Hpend).
  specialize (IH vs1 (map vo_obs outs) Hok).
  destruct (a2c_collect T vs1 (map vo_obs outs)) as [[rows vs2] last].
  destruct IH as (IHr & IHv & IHl).
  cbn [a_rows_ok length]. repeat split; try assumption; [|lia].
  rewrite Hnext, Hpend. exact IHr.
Qed.

Lemma okv_okva v o : okv v o -> okva v o.
Proof. intros (Hp & Hd & Hst & Ho). repeat split; try assumption. rewrite Hp, Hd. reflexivity. Qed.

Theorem a2c_run_chain : forall T scripts,
  let '(rows, _, _) := a2c_run T scripts in
  a_rows_ok (map (fun _ => (0, 0)) scripts) (map (fun _ => false) scripts) rows /\ length rows = T.
Proof.
  intros T scripts. unfold a2c_run. pose proof (vec_init_ok scripts) as H.
  assert (Hinit : snd (vec_init scripts) = map (fun _ => (0, 0)) scripts).
  { unfold vec_init. cbn [snd]. rewrite map_map. apply map_ext. intros s. reflexivity. }
  assert (Hpend : map v_pending (fst (vec_init scripts)) = map (fun _ => false) scripts).
  { unfold vec_init. cbn [fst]. rewrite !map_map. apply map_ext. intros s. reflexivity. }
  destruct (vec_init scripts) as [vs o]. cbn [fst snd] in *. subst o.
  assert (H' : Forall2 okva vs (map (fun _ => (0, 0)) scripts)).
  { clear Hpend. induction H; constructor; [apply okv_okva; assumption | assumption]. }
  pose proof (a2c_rows_chain T vs _ H') as Hc.
  destruct (a2c_collect T vs (map (fun _ => (0, 0)) scripts)) as [[rows vs'] last].
  destruct Hc as (Hr & _ & Hl). rewrite Hpend in Hr. split; assumption.
Qed.

(** the observation a2c.collect_trajectories returns (and train_a2c feeds into the next rollout) is the one
    each environment returned last; a continued rollout therefore chains on the previous one *)
Theorem a2c_returned_observation : forall T scripts,
  let '(_, vs', last) := a2c_run T scripts in
  Forall2 (fun v o => o = (e_ep (v_env v), e_t (v_env v))) vs' last.
Proof.
  intros T scripts. unfold a2c_run. pose proof (vec_init_ok scripts) as H.
  destruct (vec_init scripts) as [vs o].
  assert (H' : Forall2 okva vs o) by (induction H; constructor; [apply okv_okva; assumption | assumption]).
  pose proof (a2c_rows_chain T vs o H') as Hc.
  destruct (a2c_collect T vs o) as [[rows vs'] last]. destruct Hc as (_ & Hv & _).
  induction Hv as [|v x vs1 l1 Hx _ IH]; constructor; [|exact IH]. destruct Hx as (_ & _ & Hx). exact Hx.
Qed.

Lemma a2c_collect_app : forall T1 T2 vs cur,
  let '(rows1, vs1, last1) := a2c_collect T1 vs cur in
  let '(rows2, vs2, last2) := a2c_collect T2 vs1 last1 in
  a2c_collect (T1 + T2) vs cur = (rows1 ++ rows2, vs2, last2).
Proof.
  induction T1 as [|T1 IH]; intros T2 vs cur; cbn [a2c_collect Nat.add].
  - destruct (a2c_collect T2 vs cur) as [[r v] l]. reflexivity.
  - destruct (vec_step NextStep vs) as [vs1 outs].
    specialize (IH T2 vs1 (map vo_obs outs)).
    destruct (a2c_collect T1 vs1 (map vo_obs outs)) as [[rows1 vsa] lasta].
    destruct (a2c_collect T2 vsa lasta) as [[rows2 vsb] lastb].
    rewrite IH. reflexivity.
Qed.
