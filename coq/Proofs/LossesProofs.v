(** C03 — critic and representation losses implement their documented targets per sample. *)
From Coq Require Import Reals List Bool Arith Lra Lia Permutation.
From RLV Require Import Model.Num Model.Buffers Model.Tensor Model.Blocks Model.Returns Model.Losses Model.Dual
  Proofs.RingProofs Proofs.WeightsProofs Proofs.TabularProofs Proofs.BlocksProofs.
Import ListNotations.
Local Open Scope R_scope.

Definition idR (x : R) : R := x.

(* ------------------------------------------------------------------ *)
(** ** shape lemmas *)
Lemma forallb_singletons (l : list R) :
  forallb (fun r : list R => Nat.eqb (length r) 1) (map (fun x => [x]) l) = true.
Proof. induction l; cbn; auto. Qed.
Lemma map_hd_singletons (l : list R) : map (fun r => hd nzero r) (map (fun x => [x]) l) = l.
Proof. induction l as [|a l IH]; cbn [map hd]; [reflexivity|]. f_equal. exact IH. Qed.
Lemma squeeze_col (l : list R) : (2 <= length l)%nat -> squeeze (col l) = T1 l.
Proof.
  intro H. destruct l as [|a [|b t]]; cbn in H; try lia. unfold col.
  change (map (fun x : R => [x]) (a :: b :: t)) with ([a] :: [b] :: map (fun x : R => [x]) t).
  cbn [squeeze].
  change ([a] :: [b] :: map (fun x : R => [x]) t) with (map (fun x : R => [x]) (a :: b :: t)).
  rewrite forallb_singletons, map_hd_singletons. reflexivity.
Qed.
Lemma squeeze_col1 (x : R) : squeeze (col [x]) = T0 x.
Proof. reflexivity. Qed.
Lemma squeeze_T1 (l : list R) : (2 <= length l)%nat -> squeeze (T1 l) = T1 l.
Proof. intro H. destruct l as [|a [|b t]]; cbn in H; try lia. reflexivity. Qed.

Lemma bop_T1 (f : R -> R -> R) a b : length a = length b -> bop f (T1 a) (T1 b) = Ok (T1 (zipw f a b)).
Proof. intro H. cbn [bop]. rewrite bzip_same by exact H. reflexivity. Qed.

Lemma tmean_T1 (l : list R) : tmean (T1 l) = nmean l.
Proof. reflexivity. Qed.

Definition zipw3 {A B C D} (f : A -> B -> C -> D) (a : list A) (b : list B) (c : list C) : list D :=
  zipw (fun ab c => f (fst ab) (snd ab) c) (combine a b) c.

Lemma zipw_length {A B C} (f : A -> B -> C) a b : length (zipw f a b) = Nat.min (length a) (length b).
Proof. unfold zipw. rewrite map_length, combine_length. reflexivity. Qed.

(** per-sample TD target y_i = r_i + (1 - d_i) * gamma * q_next_i *)
Definition ys (r d qn : list R) (g : R) : list R := zipw3 (fun r d q => r + g * (1 - d) * q) r d qn.

Lemma ys_length r d qn g : length r = length d -> length d = length qn -> length (ys r d qn g) = length r.
Proof. intros H1 H2. unfold ys, zipw3. rewrite zipw_length, combine_length. lia. Qed.

(** td_target on a squeezed (N,1) bootstrap column, for every batch size N >= 1 *)
Lemma td_target_col (r d qn : list R) g : (1 <= length r)%nat ->
  length r = length d -> length d = length qn ->
  td_target (T1 r) (T1 d) g (tsg idR (squeeze (col qn))) = Ok (T1 (ys r d qn g)).
Proof.
  intros HN H1 H2. destruct (Nat.le_gt_cases 2 (length r)) as [H|H].
  - rewrite squeeze_col by lia. unfold td_target, tsg, tscale, one_minus, tmul, tadd. cbn [tmap].
    rewrite bop_T1 by (rewrite !map_length; lia). cbn [rbind]. rewrite bop_T1 by (rewrite zipw_length, !map_length; lia).
    f_equal. f_equal. unfold ys, zipw3, zipw, idR.
    clear HN H. revert d qn H1 H2. induction r as [|r0 r IH]; intros [|d0 d] [|q0 qn] H1 H2; cbn in *; try lia; try reflexivity.
    apply (f_equal2 cons); [ring|apply IH; lia].
  - destruct r as [|r0 [|]]; cbn in H, HN; try lia. destruct d as [|d0 [|]]; cbn in H1; try lia.
    destruct qn as [|q0 [|]]; cbn in H2; try lia. cbn. unfold idR. repeat f_equal; try ring.
Qed.

(** the same with an (N,) bootstrap vector (discrete losses) *)
Lemma td_target_vec (r d qn : list R) g : length r = length d -> length d = length qn ->
  td_target (T1 r) (T1 d) g (T1 qn) = Ok (T1 (ys r d qn g)).
Proof.
  intros H1 H2. unfold td_target, tscale, one_minus, tmul, tadd. cbn [tmap].
  rewrite bop_T1 by (rewrite !map_length; lia). cbn [rbind]. rewrite bop_T1 by (rewrite zipw_length, !map_length; lia).
  f_equal. f_equal. unfold ys, zipw3, zipw.
  revert d qn H1 H2. induction r as [|r0 r IH]; intros [|d0 d] [|q0 qn] H1 H2; cbn in *; try lia; try reflexivity.
  apply (f_equal2 cons); [ring|apply IH; lia].
Qed.

Definition mse_spec (q y : list R) : R := nmean (zipw sqerr q y).

Lemma mse_T1 (q y : list R) : length q = length y -> mse (T1 q) (T1 y) = Ok (mse_spec q y).
Proof. intro H. unfold mse. rewrite bop_T1 by exact H. reflexivity. Qed.
Lemma mse_T0_T1 (q y : R) : mse (T0 q) (T1 [y]) = Ok (mse_spec [q] [y]).
Proof. reflexivity. Qed.

(* ------------------------------------------------------------------ *)
(** ** DDPG *)
Theorem ddpg_eq_spec (q qn r d : list R) g : (2 <= length q)%nat ->
  length q = length r -> length r = length d -> length d = length qn ->
  ddpg_loss idR (col q) (col qn) (T1 r) (T1 d) g = Ok (mse_spec q (ys r d qn g), nmean q).
Proof.
  intros HN H1 H2 H3. unfold ddpg_loss. rewrite td_target_col by lia. cbn [rbind].
  unfold mse_continuous. rewrite squeeze_col by lia. unfold same_shape. cbn [shape].
  rewrite (ys_length r d qn g H2 H3).
  destruct (list_eq_dec Nat.eq_dec [length q] [length r]) as [_|Hne]; [|exfalso; apply Hne; congruence].
  rewrite mse_T1 by (rewrite ys_length; lia). reflexivity.
Qed.

(** batch size 1 is rejected loudly (chex shape assertion), never a silently different value *)
Theorem ddpg_n1_rejects (q qn r d g : R) :
  ddpg_loss idR (col [q]) (col [qn]) (T1 [r]) (T1 [d]) g = Err.
Proof. reflexivity. Qed.

(* ------------------------------------------------------------------ *)
(** ** clipped double-Q losses: TD3, SAC (every batch size N >= 1) *)
Lemma clipped_double_spec (q1 q2 y : list R) : (1 <= length y)%nat ->
  length q1 = length y -> length q2 = length y ->
  clipped_double_q_loss (col q1) (col q2) (T1 y) =
  Ok (mse_spec q1 y + mse_spec q2 y, nmean (zipw Rmin q1 q2)).
Proof.
  intros HN H1 H2. unfold clipped_double_q_loss.
  destruct (Nat.le_gt_cases 2 (length y)) as [H|H].
  - rewrite !squeeze_col by lia. rewrite !mse_T1 by lia. cbn [rbind].
    rewrite bop_T1 by lia. cbn [rbind]. f_equal. f_equal. unfold tmean; cbn [flatten]. f_equal.
    unfold zipw. apply map_ext. intros [a b]. apply nmin_R.
  - destruct y as [|y0 [|]]; cbn in H, HN; try lia. destruct q1 as [|a [|]]; cbn in H1; try lia.
    destruct q2 as [|b [|]]; cbn in H2; try lia. cbn. rewrite nmin_R. reflexivity.
Qed.

Theorem td3_eq_spec (q1 q2 qn r d : list R) g : (1 <= length r)%nat ->
  length q1 = length r -> length q2 = length r -> length r = length d -> length d = length qn ->
  td3_loss idR (col q1) (col q2) (col qn) (T1 r) (T1 d) g =
  Ok (mse_spec q1 (ys r d qn g) + mse_spec q2 (ys r d qn g), nmean (zipw Rmin q1 q2)).
Proof.
  intros HN H1 H2 H3 H4. unfold td3_loss. rewrite td_target_col by lia. cbn [rbind].
  apply clipped_double_spec; rewrite ys_length; lia.
Qed.

(** SAC: the bootstrap is min Q'(s', a') - alpha * log pi(a'|s') *)
Theorem sac_eq_spec (q1 q2 qn lp r d : list R) alpha g : (2 <= length r)%nat ->
  length q1 = length r -> length q2 = length r -> length r = length d -> length d = length qn ->
  length lp = length qn ->
  sac_loss idR (col q1) (col q2) (col qn) (T1 lp) (T1 r) (T1 d) alpha g =
  let soft := zipw (fun q l => q - alpha * l) qn lp in
  Ok (mse_spec q1 (ys r d soft g) + mse_spec q2 (ys r d soft g), nmean (zipw Rmin q1 q2)).
Proof.
  intros HN H1 H2 H3 H4 H5. cbn zeta. unfold sac_loss. rewrite squeeze_col by lia.
  unfold tsub, tscale. cbn [tmap]. rewrite bop_T1 by (rewrite map_length; lia). cbn [rbind].
  assert (E : zipw nsub qn (map (fun x => (alpha * x)%num) lp) = zipw (fun q l => q - alpha * l) qn lp).
  { unfold zipw. clear -H5. revert lp H5. induction qn as [|a qn IH]; intros [|b lp] H; cbn in *; try lia; try reflexivity.
    f_equal. apply IH. lia. }
  rewrite E. set (soft := zipw (fun q l => q - alpha * l) qn lp).
  assert (Hs : length soft = length qn) by (unfold soft; rewrite zipw_length; lia).
  replace (tsg idR (T1 soft)) with (T1 soft) by (unfold tsg, idR; cbn; rewrite map_id; reflexivity).
  rewrite td_target_vec by lia. cbn [rbind]. apply clipped_double_spec; rewrite ys_length; lia.
Qed.

(* ------------------------------------------------------------------ *)
(** ** discrete losses: DQN / Nature-DQN / double DQN *)
Lemma gather_length (M : list (list R)) idx : length M = length idx -> length (gather M idx) = length M.
Proof. intro H. unfold gather. rewrite map_length, combine_length. lia. Qed.

(** DQN and Nature-DQN (next_q from the online resp. the target network): bootstrap = max_a *)
Theorem dqn_eq_spec (q_all next_q : list (list R)) acts (r d : list R) g :
  length q_all = length acts -> length q_all = length r -> length r = length d -> length d = length next_q ->
  dqn_loss idR q_all next_q acts (T1 r) (T1 d) g =
  let qp := gather q_all acts in
  Ok (mse_spec qp (ys r d (row_max next_q) g), nmean qp).
Proof.
  intros H0 H1 H2 H3. cbn zeta. unfold dqn_loss.
  replace (map (map idR) next_q) with next_q by (rewrite <- (map_id next_q) at 1; apply map_ext; intro; symmetry; apply map_id).
  rewrite td_target_vec by (unfold row_max; rewrite ?map_length; lia). cbn [rbind].
  unfold mse_discrete, same_shape. cbn [shape]. rewrite gather_length by exact H0.
  rewrite ys_length by (unfold row_max; rewrite ?map_length; lia).
  destruct (list_eq_dec Nat.eq_dec [length q_all] [length r]) as [_|Hne]; [|exfalso; apply Hne; congruence].
  rewrite mse_T1 by (rewrite gather_length, ys_length; unfold row_max; rewrite ?map_length; lia). reflexivity.
Qed.

(** double DQN: the value of the TARGET network at the ONLINE network's greedy action (N >= 2) *)
Theorem ddqn_eq_spec (q_all nq_on nq_tg : list (list R)) acts (r d : list R) g : (2 <= length r)%nat ->
  length q_all = length acts -> length q_all = length r -> length r = length d ->
  length d = length nq_on -> length nq_on = length nq_tg ->
  ddqn_loss idR q_all nq_on nq_tg acts (T1 r) (T1 d) g =
  let qp := gather q_all acts in
  Ok (mse_spec qp (ys r d (gather nq_tg (row_argmax nq_on)) g), nmean qp).
Proof.
  intros HN H0 H1 H2 H3 H4. cbn zeta. unfold ddqn_loss, ddqn_target.
  assert (Eid : forall M : list (list R), map (map idR) M = M).
  { intro M. rewrite <- (map_id M) at 2. apply map_ext. intro. apply map_id. }
  rewrite !Eid.
  assert (Hg : length (gather nq_tg (row_argmax nq_on)) = length r).
  { rewrite gather_length; unfold row_argmax; rewrite ?map_length; lia. }
  rewrite squeeze_T1 by lia. rewrite td_target_vec by lia. cbn [rbind].
  rewrite mse_T1 by (rewrite gather_length, ys_length; lia). reflexivity.
Qed.

(* ------------------------------------------------------------------ *)
(** ** consequences shared by all TD losses *)
(** a terminated transition contributes no bootstrap term whatever its successor values are *)
Theorem terminated_no_bootstrap (r d qn qn' : list R) g :
  length r = length d -> length d = length qn -> length qn = length qn' ->
  (forall i, (i < length d)%nat -> nth i d 0 <> 1 -> nth i qn 0 = nth i qn' 0) ->
  ys r d qn g = ys r d qn' g.
Proof.
  unfold ys, zipw3, zipw. revert d qn qn'. induction r as [|r0 r IH]; intros [|d0 d] [|q0 qn] [|q0' qn'] H1 H2 H3 Hsame;
    cbn in *; try lia; try reflexivity.
  f_equal.
  - destruct (Req_dec d0 1) as [->|Hne]; [lra|]. rewrite (Hsame 0%nat ltac:(lia) Hne). reflexivity.
  - apply IH; try lia. intros i Hi Hne. apply (Hsame (S i)); [lia|exact Hne].
Qed.

(** the batch mean is invariant under any permutation of the samples *)
Lemma rsum_perm (a b : list R) : Permutation a b -> rsum a = rsum b.
Proof. unfold rsum. induction 1; cbn; lra. Qed.

Theorem batch_mean_perm_invariant {A} (f : A -> R) (l l' : list A) :
  Permutation l l' -> nmean (map f l) = nmean (map f l').
Proof.
  intro H. unfold nmean. rewrite !map_length, !nsum_R, (Permutation_length H).
  fold (rsum (map f l)) (rsum (map f l')). rewrite (rsum_perm _ _ (Permutation_map f H)). reflexivity.
Qed.

(* ------------------------------------------------------------------ *)
(** ** gradients: target networks, target policies and bootstrap inputs get exactly zero *)
(** Evaluated on dual numbers with [dual_sg], every TD loss gives the same result (value AND
    tangent) for two bootstrap tensors with equal values and arbitrary tangents. *)
Definition tproj (t : tensor (R * R)) : tensor R :=
  match t with T0 x => T0 (fst x) | T1 l => T1 (map fst l) | T2 M => T2 (map (map fst) M) end.

Lemma tsg_dual_eq (a b : tensor (R * R)) :
  tproj a = tproj b -> tsg dual_sg a = tsg dual_sg b.
Proof.
  unfold tsg, dual_sg. destruct a as [x|l|M], b as [y|l'|M']; cbn; intro H; try discriminate; injection H as H.
  - rewrite H. reflexivity.
  - f_equal. revert l' H. induction l as [|p l IH]; intros [|p' l'] H; cbn in *; try discriminate; auto.
    injection H as H0 H1. rewrite H0, (IH _ H1). reflexivity.
  - f_equal. revert M' H. induction M as [|row M IH]; intros [|row' M'] H; cbn in *; try discriminate; auto.
    injection H as H0 H1. f_equal; [|apply IH, H1].
    revert row' H0. induction row as [|p row IHr]; intros [|p' row'] H0; cbn in *; try discriminate; auto.
    injection H0 as Ha Hb. rewrite Ha, (IHr _ Hb). reflexivity.
Qed.

Lemma squeeze_proj (t : tensor (R * R)) : tproj (squeeze t) = squeeze (tproj t).
Proof.
  destruct t as [x|l|M].
  - reflexivity.
  - destruct l as [|a [|b l]]; reflexivity.
  - destruct M as [|r0 [|r1 M]].
    + reflexivity.
    + destruct r0 as [|a [|b r0]]; reflexivity.
    + assert (Hf : forall L : list (list (R * R)),
                forallb (fun r : list R => Nat.eqb (length r) 1) (map (map fst) L) =
                forallb (fun r : list (R * R) => Nat.eqb (length r) 1) L).
      { induction L as [|r L IH]; cbn; [reflexivity|]. rewrite map_length, IH. reflexivity. }
      assert (Hh : forall L : list (list (R * R)),
                map (fun r : list R => hd nzero r) (map (map fst) L) = map fst (map (fun r => hd nzero r) L)).
      { induction L as [|r L IH]; cbn [map]; [reflexivity|]. rewrite IH. f_equal. destruct r; reflexivity. }
      pose proof (Hf (r0 :: r1 :: M)) as Hf'. pose proof (Hh (r0 :: r1 :: M)) as Hh'. cbn [map] in Hf', Hh'.
      cbn [squeeze tproj map]. rewrite Hf'.
      destruct (forallb _ (r0 :: r1 :: M)); cbn [tproj map]; [rewrite Hh'|]; destruct r0 as [|p [|p2 r0]]; reflexivity.
Qed.

Lemma squeeze_fst_commute (a b : tensor (R * R)) :
  tproj a = tproj b -> tproj (squeeze a) = tproj (squeeze b).
Proof. intro H. rewrite !squeeze_proj, H. reflexivity. Qed.

Theorem td3_grad_target_zero (q1 q2 qt qt' r d : tensor (R * R)) (g : R * R) :
  tproj qt = tproj qt' ->
  td3_loss dual_sg q1 q2 qt r d g = td3_loss dual_sg q1 q2 qt' r d g.
Proof.
  intro H. unfold td3_loss. rewrite (tsg_dual_eq (squeeze qt) (squeeze qt')) by (apply squeeze_fst_commute, H). reflexivity.
Qed.

Theorem ddpg_grad_target_zero (q qt qt' r d : tensor (R * R)) (g : R * R) :
  tproj qt = tproj qt' ->
  ddpg_loss dual_sg q qt r d g = ddpg_loss dual_sg q qt' r d g.
Proof.
  intro H. unfold ddpg_loss. rewrite (tsg_dual_eq (squeeze qt) (squeeze qt')) by (apply squeeze_fst_commute, H). reflexivity.
Qed.

Theorem td3_lap_grad_target_zero (q1 q2 qt qt' r d : tensor (R * R)) (g mp : R * R) :
  tproj qt = tproj qt' ->
  td3_lap_loss dual_sg q1 q2 qt r d g mp = td3_lap_loss dual_sg q1 q2 qt' r d g mp.
Proof.
  intro H. unfold td3_lap_loss. rewrite (tsg_dual_eq (squeeze qt) (squeeze qt')) by (apply squeeze_fst_commute, H). reflexivity.
Qed.

Lemma mapmap_sg_eq (A B : list (list (R * R))) : map (map fst) A = map (map fst) B ->
  map (map dual_sg) A = map (map dual_sg) B.
Proof.
  intro H. assert (E := tsg_dual_eq (T2 A) (T2 B)). cbn in E. specialize (E ltac:(f_equal; exact H)).
  unfold tsg in E. cbn in E. injection E as E. exact E.
Qed.

Theorem dqn_grad_bootstrap_zero (q_all nq nq' : list (list (R * R))) acts (r d : tensor (R * R)) (g : R * R) :
  map (map fst) nq = map (map fst) nq' ->
  dqn_loss dual_sg q_all nq acts r d g = dqn_loss dual_sg q_all nq' acts r d g.
Proof. intro H. unfold dqn_loss. rewrite (mapmap_sg_eq _ _ H). reflexivity. Qed.

Theorem ddqn_grad_bootstrap_zero (q_all on on' tg tg' : list (list (R * R))) acts (r d : tensor (R * R)) (g : R * R) :
  map (map fst) on = map (map fst) on' -> map (map fst) tg = map (map fst) tg' ->
  ddqn_loss dual_sg q_all on tg acts r d g = ddqn_loss dual_sg q_all on' tg' acts r d g.
Proof. intros H1 H2. unfold ddqn_loss, ddqn_target. rewrite (mapmap_sg_eq _ _ H1), (mapmap_sg_eq _ _ H2). reflexivity. Qed.

Theorem sale_grad_target_zero (zsa zsp zsp' : tensor (R * R)) :
  tproj zsp = tproj zsp' -> sale_loss dual_sg zsa zsp = sale_loss dual_sg zsa zsp'.
Proof. intro H. unfold sale_loss. rewrite (tsg_dual_eq _ _ H). reflexivity. Qed.

(** SALE embedding loss: mean squared error over all N*Z entries *)
Theorem sale_eq_spec n z (A B : list (list R)) : mat n z A -> mat n z B ->
  sale_loss idR (T2 A) (T2 B) = Ok (nmean (concat (zipw (zipw sqerr) A B))).
Proof.
  intros HA HB. unfold sale_loss, mse, tsg. cbn [tmap].
  replace (map (map idR) B) with B by (rewrite <- (map_id B) at 1; apply map_ext; intro; symmetry; apply map_id).
  rewrite (bop_mat sqerr n z) by assumption. reflexivity.
Qed.
