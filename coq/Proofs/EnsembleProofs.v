(** C17 — PETS probabilistic ensemble: proofs (numeric parts over R, index parts over nat lists). *)
From Coq Require Import QArith Qreals Reals List Bool Arith Lra Lia Permutation ZArith.
From RLV Require Import Model.Num Model.Ensemble.
Import ListNotations.
Local Open Scope R_scope.

(* ================================================================== *)
(** * 0. Generic list facts *)

Lemma pe_map2_length {A B C} (f : A -> B -> C) la : forall lb,
  length (pe_map2 f la lb) = Nat.min (length la) (length lb).
Proof. induction la as [|a la IH]; intros [|b lb]; cbn; auto. Qed.

Lemma pe_map3_length {A B C D} (f : A -> B -> C -> D) la : forall lb lc,
  length (pe_map3 f la lb lc) = Nat.min (length la) (Nat.min (length lb) (length lc)).
Proof. induction la as [|a la IH]; intros [|b lb] [|c lc]; cbn; auto. Qed.

Lemma pe_map2_nth {A B C} (f : A -> B -> C) da db dc la : forall lb k,
  (k < length la)%nat -> (k < length lb)%nat ->
  nth k (pe_map2 f la lb) dc = f (nth k la da) (nth k lb db).
Proof.
  induction la as [|a la IH]; intros [|b lb] k Ha Hb; cbn in *; try lia.
  destruct k; [reflexivity|]. apply IH; lia.
Qed.

Lemma pe_map3_nth {A B C D} (f : A -> B -> C -> D) da db dc dd la : forall lb lc k,
  (k < length la)%nat -> (k < length lb)%nat -> (k < length lc)%nat ->
  nth k (pe_map3 f la lb lc) dd = f (nth k la da) (nth k lb db) (nth k lc dc).
Proof.
  induction la as [|a la IH]; intros [|b lb] [|c lc] k Ha Hb Hc; cbn in *; try lia.
  destruct k; [reflexivity|]. apply IH; lia.
Qed.

Lemma pe_map2_map_l {A A' B C} (f : A' -> B -> C) (g : A -> A') la : forall lb,
  pe_map2 f (map g la) lb = pe_map2 (fun a b => f (g a) b) la lb.
Proof. induction la as [|a la IH]; intros [|b lb]; cbn; f_equal; auto. Qed.

Lemma pe_sequence_map_some {A B} (f : A -> B) l :
  pe_sequence (map (fun x => Some (f x)) l) = Some (map f l).
Proof. induction l as [|x l IH]; cbn; [reflexivity|]. rewrite IH. reflexivity. Qed.

Lemma pe_sequence_ext_some {A B} (g : A -> option B) (f : A -> B) l :
  (forall x, In x l -> g x = Some (f x)) -> pe_sequence (map g l) = Some (map f l).
Proof.
  induction l as [|x l IH]; intro H; cbn; [reflexivity|].
  rewrite (H x) by (left; reflexivity). rewrite IH by (intros y Hy; apply H; right; exact Hy). reflexivity.
Qed.

(* ================================================================== *)
(** * 1. Sums and means over R *)

Lemma nsum_R_acc (l : list R) : forall a, fold_left Rplus l a = a + fold_left Rplus l 0.
Proof.
  induction l as [|x l IH]; intro a; cbn [fold_left]; [lra|].
  rewrite (IH (a + x)), (IH (0 + x)). lra.
Qed.

Lemma nsum_R_nil : nsum (F := R) [] = 0.
Proof. reflexivity. Qed.

Lemma nsum_R_cons x (l : list R) : nsum (x :: l) = x + nsum l.
Proof. unfold nsum. cbn [fold_left nadd nzero R_ops]. rewrite nsum_R_acc. lra. Qed.

Lemma nsum_R_app (l1 l2 : list R) : nsum (l1 ++ l2) = nsum l1 + nsum l2.
Proof. induction l1 as [|x l1 IH]; cbn [app]; [unfold nsum at 2; cbn [fold_left nzero R_ops]; lra|]. rewrite !nsum_R_cons, IH. lra. Qed.

Lemma pe_nofnat_R n : nofnat (F := R) n = INR n.
Proof. unfold nofnat. cbn [nofQ R_ops]. unfold Q2R. cbn. rewrite INR_IZR_INZ. field. Qed.

Lemma nmean_R (l : list R) : nmean l = nsum l / INR (length l).
Proof. unfold nmean. rewrite pe_nofnat_R. reflexivity. Qed.

Lemma nsum_R_map_add {A} (f g : A -> R) l :
  nsum (map (fun x => f x + g x) l) = nsum (map f l) + nsum (map g l).
Proof. induction l as [|x l IH]; cbn [map]; [unfold nsum; cbn [fold_left nzero R_ops]; lra|]. rewrite !nsum_R_cons, IH. lra. Qed.

Lemma nsum_R_map_scal {A} c (f : A -> R) l :
  nsum (map (fun x => c * f x) l) = c * nsum (map f l).
Proof. induction l as [|x l IH]; cbn [map]; [unfold nsum; cbn [fold_left nzero R_ops]; lra|]. rewrite !nsum_R_cons, IH. lra. Qed.

Lemma nsum_R_map_const {A} c (l : list A) : nsum (map (fun _ => c) l) = INR (length l) * c.
Proof.
  induction l as [|x l IH]; [unfold nsum; cbn; lra|].
  cbn [map]. rewrite nsum_R_cons, IH. cbn [length]. rewrite S_INR. lra.
Qed.

Lemma nsum_R_ext {A} (f g : A -> R) l : (forall x, In x l -> f x = g x) -> nsum (map f l) = nsum (map g l).
Proof.
  induction l as [|x l IH]; intro H; [reflexivity|]. cbn [map]. rewrite !nsum_R_cons.
  rewrite (H x) by (left; reflexivity). rewrite IH by (intros y Hy; apply H; right; exact Hy). reflexivity.
Qed.

Lemma nsum_R_nonneg (l : list R) : Forall (fun x => 0 <= x) l -> 0 <= nsum l.
Proof. induction 1 as [|x l Hx _ IH]; [unfold nsum; cbn; lra|]. rewrite nsum_R_cons. lra. Qed.

(* ================================================================== *)
(** * 2. Soft log-variance bounds *)

Definition softplusR (z : R) : R := ln (1 + exp z).

Lemma pe_softplus_R z : pe_softplus (F := R) z = softplusR z.
Proof. reflexivity. Qed.

Lemma softplus_pos z : 0 < softplusR z.
Proof.
  unfold softplusR. rewrite <- ln_1. apply ln_increasing; [lra|]. pose proof (exp_pos z). lra.
Qed.

Lemma softplus_increasing x y : x < y -> softplusR x < softplusR y.
Proof.
  intro H. unfold softplusR. pose proof (exp_pos x). apply ln_increasing; [lra|].
  pose proof (exp_increasing x y H). lra.
Qed.

(** ln (1 + e^z) = z + ln (1 + e^-z) *)
Lemma softplus_reflect z : softplusR z = z + softplusR (- z).
Proof.
  unfold softplusR. pose proof (exp_pos z) as Hz. pose proof (exp_pos (- z)) as Hmz.
  rewrite <- (ln_exp z) at 2. rewrite <- ln_mult by lra. f_equal.
  rewrite Rmult_plus_distr_l, <- exp_plus. replace (z + - z) with 0 by lra. rewrite exp_0. lra.
Qed.

Definition safeR (lv mn mx : R) : R := mn + softplusR (mx - softplusR (mx - lv) - mn).

Lemma pe_safe_log_var_R lv mn mx : pe_safe_log_var (F := R) lv mn mx = safeR lv mn mx.
Proof. reflexivity. Qed.

(** Lower soft bound strict, upper bound up to the softplus slack of the PETS formula,
    for EVERY raw log-variance and every pair of bounds (no ordering of mn, mx needed). *)
Theorem safe_log_var_bounds lv mn mx :
  mn < safeR lv mn mx /\ safeR lv mn mx < mx + ln (1 + exp (- (mx - mn))).
Proof.
  unfold safeR. split.
  - pose proof (softplus_pos (mx - softplusR (mx - lv) - mn)). lra.
  - pose proof (softplus_pos (mx - lv)) as Hp.
    assert (Hlt : mx - softplusR (mx - lv) - mn < mx - mn) by lra.
    apply softplus_increasing in Hlt. rewrite (softplus_reflect (mx - mn)) in Hlt.
    unfold softplusR at 3 in Hlt. lra.
Qed.

(** With ordered bounds the slack is at most ln 2. *)
Lemma safe_log_var_slack_le_ln2 mn mx : mn <= mx -> ln (1 + exp (- (mx - mn))) <= ln 2.
Proof.
  intro H. destruct (Req_dec mn mx) as [->|Hne].
  - replace (- (mx - mx)) with 0 by lra. rewrite exp_0. replace (1 + 1) with 2 by lra. lra.
  - left. pose proof (exp_pos (- (mx - mn))). apply ln_increasing; [lra|].
    assert (exp (- (mx - mn)) < exp 0) by (apply exp_increasing; lra). rewrite exp_0 in *. lra.
Qed.

(** The bounded log-variance is strictly increasing in the raw value (hence injective). *)
Lemma safe_log_var_increasing lv lv' mn mx : lv < lv' -> safeR lv mn mx < safeR lv' mn mx.
Proof.
  intro H. unfold safeR.
  assert (H1 : softplusR (mx - lv') < softplusR (mx - lv)) by (apply softplus_increasing; lra).
  assert (H2 : mx - softplusR (mx - lv) - mn < mx - softplusR (mx - lv') - mn) by lra.
  apply softplus_increasing in H2. lra.
Qed.

(** Learned bounds: the sigmoid parametrisation stays strictly inside (lo, hi). *)
Lemma sigmoid_bounds x : 0 < pe_sigmoid (F := R) x < 1.
Proof.
  unfold pe_sigmoid. cbn [nunit nadd ndiv nneg nexp R_ops]. pose proof (exp_pos (- x)) as H.
  split.
  - apply Rdiv_lt_0_compat; lra.
  - apply (Rmult_lt_reg_r (1 + exp (- x))); [lra|]. unfold Rdiv. rewrite Rmult_assoc, Rinv_l by lra. lra.
Qed.

Theorem constrained_param_bounds x lo hi : lo < hi ->
  lo < pe_constrained_param (F := R) x lo hi < hi.
Proof.
  intro H. unfold pe_constrained_param. cbn [nadd nsub nmul R_ops].
  pose proof (sigmoid_bounds x) as [H0 H1]. split; nra.
Qed.

(* ================================================================== *)
(** * 3. Rank behaviour of the vmapped soft bounding *)

Lemma map_pe_map2 {A B C D} (g : C -> D) (f : A -> B -> C) la : forall lb,
  map g (pe_map2 f la lb) = pe_map2 (fun a b => g (f a b)) la lb.
Proof. induction la as [|a la IH]; intros [|b lb]; cbn; f_equal; auto. Qed.

Lemma map_pe_map3 {A B C D E} (g : D -> E) (f : A -> B -> C -> D) la : forall lb lc,
  map g (pe_map3 f la lb lc) = pe_map3 (fun a b c => g (f a b c)) la lb lc.
Proof. induction la as [|a la IH]; intros [|b lb] [|c lc]; cbn; f_equal; auto. Qed.

Lemma pe_map2_ext {A B C} (f g : A -> B -> C) la : forall lb,
  (forall a b, f a b = g a b) -> pe_map2 f la lb = pe_map2 g la lb.
Proof. induction la as [|a la IH]; intros [|b lb] H; cbn; f_equal; auto. Qed.

Lemma nth_map_lt {A B} (f : A -> B) l i da db : (i < length l)%nat -> nth i (map f l) db = f (nth i l da).
Proof. intro H. rewrite (nth_indep _ db (f da)) by (rewrite map_length; exact H). apply map_nth. Qed.

Lemma nth_map_seq {B} (f : nat -> B) n i d : (i < n)%nat -> nth i (map f (seq 0 n)) d = f i.
Proof. intro H. rewrite (nth_map_lt f (seq 0 n) i 0%nat) by (rewrite seq_length; exact H). rewrite seq_nth by exact H. reflexivity. Qed.

Section TensR.
  Notation tens := (pe_tens (F := R)).

  Lemma scalars_map_sc (v : list R) : pe_scalars (map PSc v) = Some v.
  Proof. induction v as [|x v IH]; cbn; [reflexivity|]. rewrite IH. reflexivity. Qed.

  Lemma to_vec_of_vec (v : list R) : pe_to_vec (pe_of_vec v) = Some v.
  Proof. apply scalars_map_sc. Qed.

  Lemma to_mat_of_mat (m : list (list R)) : pe_to_mat (pe_of_mat m) = Some m.
  Proof.
    unfold pe_to_mat, pe_of_mat. rewrite map_map.
    rewrite (pe_sequence_ext_some _ (fun r => r)); [rewrite map_id; reflexivity|].
    intros r _. apply to_vec_of_vec.
  Qed.

  Lemma to_t3_of_t3 (t : list (list (list R))) : pe_to_t3 (pe_of_t3 t) = Some t.
  Proof.
    unfold pe_to_t3, pe_of_t3. rewrite map_map.
    rewrite (pe_sequence_ext_some _ (fun r => r)); [rewrite map_id; reflexivity|].
    intros r _. apply to_mat_of_mat.
  Qed.

  Lemma tmap_of_vec f (v : list R) : pe_tmap f (pe_of_vec v) = pe_of_vec (map f v).
  Proof. unfold pe_of_vec. cbn [pe_tmap]. rewrite !map_map. reflexivity. Qed.

  Lemma tmap_of_mat f (m : list (list R)) : pe_tmap f (pe_of_mat m) = pe_of_mat (map (map f) m).
  Proof.
    unfold pe_of_mat. cbn [pe_tmap]. rewrite !map_map. f_equal. apply map_ext. intro v. apply tmap_of_vec.
  Qed.

  Lemma tmap_of_t3 f (t : list (list (list R))) : pe_tmap f (pe_of_t3 t) = pe_of_t3 (map (map (map f)) t).
  Proof.
    unfold pe_of_t3. cbn [pe_tmap]. rewrite !map_map. f_equal. apply map_ext. intro v. apply tmap_of_mat.
  Qed.

  Variables mn mx : list R.

  (** rank 1 against the (n_out,) bounds: elementwise *)
  Lemma safe_bc_vec v : pe_safe_bc mn mx (pe_of_vec v) = pe_of_vec (pe_map3 safeR v mn mx).
  Proof. unfold pe_of_vec. cbn [pe_safe_bc]. rewrite scalars_map_sc. reflexivity. Qed.

  (** rank 2: row by row *)
  Lemma safe_bc_mat m : pe_safe_bc mn mx (pe_of_mat m) = pe_of_mat (map (fun r => pe_map3 safeR r mn mx) m).
  Proof.
    destruct m as [|r m]; [reflexivity|]. unfold pe_of_mat.
    change (pe_safe_bc mn mx (PNd (map pe_of_vec (r :: m)))) with (PNd (map (pe_safe_bc mn mx) (map pe_of_vec (r :: m)))).
    rewrite !map_map. f_equal. apply map_ext. intro v. apply safe_bc_vec.
  Qed.

  (** rank 3: matrix by matrix *)
  Lemma safe_bc_t3 t : pe_safe_bc mn mx (pe_of_t3 t) = pe_of_t3 (map (map (fun r => pe_map3 safeR r mn mx)) t).
  Proof.
    destruct t as [|m t]; [reflexivity|]. unfold pe_of_t3.
    change (pe_safe_bc mn mx (PNd (map pe_of_mat (m :: t)))) with (PNd (map (pe_safe_bc mn mx) (map pe_of_mat (m :: t)))).
    rewrite !map_map. f_equal. apply map_ext. intro v. apply safe_bc_mat.
  Qed.

  Lemma slv_i_mat m : pe_slv_i mn mx (pe_of_mat m) = Some (pe_of_mat (map (fun r => pe_map3 safeR r mn mx) m)).
  Proof. unfold pe_slv_i. rewrite safe_bc_mat. reflexivity. Qed.
  Lemma slv_i_vec v : pe_slv_i mn mx (pe_of_vec v) = Some (pe_of_vec (pe_map3 safeR v mn mx)).
  Proof. unfold pe_slv_i. rewrite safe_bc_vec. reflexivity. Qed.
  Lemma slv_t3 t : pe_slv mn mx (pe_of_t3 t) = Some (pe_of_t3 (map (map (fun r => pe_map3 safeR r mn mx)) t)).
  Proof. unfold pe_slv. rewrite safe_bc_t3. reflexivity. Qed.
  Lemma slv_mat m : pe_slv mn mx (pe_of_mat m) = Some (pe_of_mat (map (fun r => pe_map3 safeR r mn mx) m)).
  Proof. unfold pe_slv. rewrite safe_bc_mat. reflexivity. Qed.
  Lemma slv_vec v : pe_slv mn mx (pe_of_vec v) = Some (pe_of_vec (pe_map3 safeR v mn mx)).
  Proof. unfold pe_slv. rewrite safe_bc_vec. reflexivity. Qed.
End TensR.

(* ================================================================== *)
(** * 4. Member i alone = slice i of the joint forward pass *)

Lemma pe_half_R : pe_half (F := R) = / 2.
Proof. unfold pe_half. cbn [nofQ R_ops]. unfold Q2R. cbn. lra. Qed.

Lemma exp_half_sq l : exp (l / 2) * exp (l / 2) = exp l.
Proof. rewrite <- exp_plus. f_equal. lra. Qed.

Section Slice.
  Context {M : Type} (fwd : M -> list R -> list R * list R).
  Notation ens := (pe_ens (F := R) (M := M)).

  (** Output dimension n: every member returns n means and n raw log-variances, and the two
      learned bound vectors have n entries. *)
  Definition ens_wf (n : nat) (e : ens) : Prop :=
    length (pe_raw_min e) = n /\ length (pe_raw_max e) = n /\
    forall m x, In m (pe_members e) -> length (fst (fwd m x)) = n /\ length (snd (fwd m x)) = n.

  (** The joint forward pass written out: member by member, row by row, dimension by dimension. *)
  Definition joint_means (e : ens) (X : list (list R)) : list (list (list R)) :=
    map (fun m => map (fun x => fst (fwd m x)) X) (pe_members e).
  Definition joint_logvars (e : ens) (X : list (list R)) : list (list (list R)) :=
    map (fun m => map (fun x => pe_map3 safeR (snd (fwd m x)) (pe_mn e) (pe_mx e)) X) (pe_members e).
  Definition indiv_means (e : ens) (Xs : list (list (list R))) : list (list (list R)) :=
    pe_map2 (fun m X => map (fun x => fst (fwd m x)) X) (pe_members e) Xs.
  Definition indiv_logvars (e : ens) (Xs : list (list (list R))) : list (list (list R)) :=
    pe_map2 (fun m X => map (fun x => pe_map3 safeR (snd (fwd m x)) (pe_mn e) (pe_mx e)) X) (pe_members e) Xs.

  Lemma mn_length e n : ens_wf n e -> length (pe_mn e) = n /\ length (pe_mx e) = n.
  Proof. intros (H1 & H2 & _). unfold pe_mn, pe_mx, pe_min_log_var, pe_max_log_var. rewrite !map_length. auto. Qed.

  (** __call__ on a batch (x.ndim == 2) *)
  Theorem call2_joint e X :
    pe_call2 fwd e X = Some (pe_of_t3 (joint_means e X), pe_of_t3 (joint_logvars e X)).
  Proof.
    unfold pe_call2. rewrite slv_t3. unfold joint_means, joint_logvars, pe_fwd_mean_b, pe_fwd_lv_b.
    rewrite !map_map. do 3 f_equal. apply map_ext. intro m. rewrite map_map. reflexivity.
  Qed.

  (** __call__ on per-member batches (x.ndim == 3, used in training): member e sees ONLY Xs[e] *)
  Theorem call3_indiv e Xs :
    pe_call3 fwd e Xs = Some (pe_of_t3 (indiv_means e Xs), pe_of_t3 (indiv_logvars e Xs)).
  Proof.
    unfold pe_call3. rewrite slv_t3. unfold indiv_means, indiv_logvars, pe_fwd_mean_b, pe_fwd_lv_b.
    do 3 f_equal. rewrite map_pe_map2. apply pe_map2_ext. intros m X. rewrite map_map. reflexivity.
  Qed.

  Theorem indiv_member_own_inputs e Xs i d : (i < length (pe_members e))%nat -> (i < length Xs)%nat ->
    nth i (indiv_means e Xs) [] = map (fun x => fst (fwd (nth i (pe_members e) d) x)) (nth i Xs []) /\
    nth i (indiv_logvars e Xs) [] =
      map (fun x => pe_map3 safeR (snd (fwd (nth i (pe_members e) d) x)) (pe_mn e) (pe_mx e)) (nth i Xs []).
  Proof.
    intros Hi HX. unfold indiv_means, indiv_logvars.
    split; rewrite (pe_map2_nth _ d []) by assumption; reflexivity.
  Qed.

  (** Every bounded log-variance of the joint pass lies within ITS OWN dimension's bounds. *)
  Theorem joint_logvars_bounded n e X i b k : ens_wf n e ->
    (i < length (pe_members e))%nat -> (b < length X)%nat -> (k < n)%nat ->
    let lv := nth k (nth b (nth i (joint_logvars e X) []) []) 0 in
    let lo := nth k (pe_mn e) 0 in let hi := nth k (pe_mx e) 0 in
    lo < lv /\ lv < hi + ln (1 + exp (- (hi - lo))) /\ -20 < lo < 0 /\ -4 < hi < 5.
  Proof.
    intros Hwf Hi Hb Hk. destruct (mn_length e n Hwf) as [Hmn Hmx]. destruct Hwf as (Hrmin & Hrmax & Hm).
    cbv zeta. unfold joint_logvars.
    destruct (pe_members e) as [|m0 ms] eqn:Ems; [cbn in Hi; lia|]. rewrite <- Ems in *.
    rewrite (nth_map_lt _ _ i m0) by exact Hi.
    destruct X as [|x0 X'] eqn:EX; [cbn in Hb; lia|]. rewrite <- EX in *.
    rewrite (nth_map_lt _ _ b x0) by exact Hb.
    destruct (Hm (nth i (pe_members e) m0) (nth b X x0) (nth_In _ _ Hi)) as [_ Hlv].
    rewrite (pe_map3_nth _ 0 0 0) by lia.
    split; [apply safe_log_var_bounds|]. split; [apply safe_log_var_bounds|].
    unfold pe_mn, pe_mx, pe_min_log_var, pe_max_log_var.
    rewrite (nth_map_lt _ _ k 0) by lia. rewrite (nth_map_lt _ _ k 0) by lia.
    split.
    - pose proof (constrained_param_bounds (nth k (pe_raw_min e) 0) (Q2R (-20 # 1)%Q) 0) as H.
      cbn [nofQ nzero R_ops]. assert (E20 : Q2R (-20 # 1)%Q = -20) by (unfold Q2R; cbn; lra). rewrite E20 in *. apply H. lra.
    - pose proof (constrained_param_bounds (nth k (pe_raw_max e) 0) (Q2R (-4 # 1)%Q) (Q2R (5 # 1)%Q)) as H.
      cbn [nofQ R_ops]. assert (E4 : Q2R (-4 # 1)%Q = -4) by (unfold Q2R; cbn; lra).
      assert (E5 : Q2R (5 # 1)%Q = 5) by (unfold Q2R; cbn; lra). rewrite E4, E5 in *. apply H. lra.
  Qed.

  (** ** Member i alone = slice i of the joint pass: BATCHES, every ensemble size, batch size and output dimension *)
  Theorem member_slice_batch e d i X : (i < length (pe_members e))%nat ->
    pe_base_distribution fwd e d i (PBatch X) =
      Some (pe_of_mat (nth i (joint_means e X) []),
            pe_of_mat (map (map (fun l => exp (l / 2))) (nth i (joint_logvars e X) [])))
    /\ pe_base_predict fwd e d i (PBatch X) =
      Some (pe_of_mat (nth i (joint_means e X) []), pe_of_mat (map (map exp) (nth i (joint_logvars e X) []))).
  Proof.
    intro Hi. unfold pe_base_distribution, pe_base_predict, pe_member_out, pe_fwd_mean_b, pe_fwd_lv_b.
    rewrite slv_i_mat, slv_mat. unfold joint_means, joint_logvars.
    rewrite !(nth_map_lt _ _ i d) by exact Hi. rewrite !tmap_of_mat, !map_map. split.
    - do 3 f_equal. apply map_ext. intro x. apply map_ext. intro l. rewrite pe_half_R. cbn [nexp nmul R_ops]. f_equal. lra.
    - reflexivity.
  Qed.

  (** ** SINGLE VECTORS: the slice is row 0 of the joint pass on the one-row batch [x] *)
  Theorem member_slice_vector e d i x : (i < length (pe_members e))%nat ->
    pe_base_distribution fwd e d i (PVec x) =
      Some (pe_of_vec (nth 0 (nth i (joint_means e [x]) []) []),
            pe_of_vec (map (fun l => exp (l / 2)) (nth 0 (nth i (joint_logvars e [x]) []) [])))
    /\ pe_base_predict fwd e d i (PVec x) =
      Some (pe_of_vec (nth 0 (nth i (joint_means e [x]) []) []),
            pe_of_vec (map exp (nth 0 (nth i (joint_logvars e [x]) []) []))).
  Proof.
    intro Hi. unfold pe_base_distribution, pe_base_predict, pe_member_out.
    rewrite slv_i_vec, slv_vec. unfold joint_means, joint_logvars.
    rewrite !(nth_map_lt _ _ i d) by exact Hi. cbn [map nth]. rewrite !tmap_of_vec. split.
    - do 3 f_equal. apply map_ext. intro l. rewrite pe_half_R. cbn [nexp nmul R_ops]. f_equal. lra.
    - reflexivity.
  Qed.
End Slice.

(* ================================================================== *)
(** * 5. Aggregate prediction and the law of total variance *)

Definition meanR (l : list R) : R := nsum l / INR (length l).
Definition varR (l : list R) : R := meanR (map (fun x => (x - meanR l) * (x - meanR l)) l).

Lemma pe_var_R (l : list R) : pe_var l = varR l.
Proof. unfold pe_var, varR, meanR. rewrite !nmean_R. reflexivity. Qed.

Lemma sum_sq_dev (l : list R) c :
  nsum (map (fun x => (x - c) * (x - c)) l) =
  nsum (map (fun x => x * x) l) - 2 * c * nsum l + INR (length l) * (c * c).
Proof.
  induction l as [|x l IH]; [unfold nsum; cbn; lra|].
  cbn [map length]. rewrite !nsum_R_cons, IH, S_INR. lra.
Qed.

(** Population variance = mean square minus squared mean (E >= 1). *)
Lemma varR_moments (l : list R) : l <> [] ->
  varR l = meanR (map (fun x => x * x) l) - meanR l * meanR l.
Proof.
  intro Hne. unfold varR. unfold meanR at 1. rewrite sum_sq_dev, map_length.
  assert (Hn : INR (length l) <> 0) by (apply not_0_INR; destruct l; [congruence|cbn; lia]).
  unfold meanR. rewrite map_length. field. exact Hn.
Qed.

Lemma varR_nonneg (l : list R) : 0 <= varR l.
Proof.
  unfold varR, meanR at 1. rewrite map_length.
  destruct l as [|x l]; [unfold nsum, Rdiv; cbn [map fold_left nzero R_ops]; rewrite Rmult_0_l; apply Rle_refl|].
  apply Rmult_le_pos.
  - apply nsum_R_nonneg. apply Forall_forall. intros y Hy. apply in_map_iff in Hy. destruct Hy as (z & <- & _). apply Rle_0_sqr.
  - left. apply Rinv_0_lt_compat. apply lt_0_INR. cbn; lia.
Qed.

(** LAW OF TOTAL VARIANCE for the uniform mixture of E >= 1 Gaussians N(mu_e, s_e):
    mean of the variances + variance of the means = second moment of the mixture minus the
    square of its mean. [vs], [ms] list the members' variances and means at one position. *)
Theorem total_variance_mixture (vs ms : list R) : ms <> [] -> length vs = length ms ->
  meanR vs + varR ms = meanR (pe_map2 (fun v m => v + m * m) vs ms) - meanR ms * meanR ms.
Proof.
  intros Hne Hlen. rewrite varR_moments by exact Hne.
  assert (Hsum : forall (vs ms : list R), length vs = length ms ->
            nsum (pe_map2 (fun v m => v + m * m) vs ms) = nsum vs + nsum (map (fun x => x * x) ms)).
  { clear. induction vs as [|v vs IH]; intros [|m ms] H; cbn in H; try lia; [unfold nsum; cbn; lra|].
    cbn [pe_map2 map]. rewrite !nsum_R_cons, IH by lia. lra. }
  unfold meanR. rewrite Hsum by exact Hlen. rewrite pe_map2_length, map_length, Hlen, Nat.min_id.
  assert (Hn : INR (length ms) <> 0) by (apply not_0_INR; destruct ms; [congruence|cbn; lia]).
  field. exact Hn.
Qed.

Section Aggregate.
  Context {M : Type} (fwd : M -> list R -> list R * list R).

  (** aggregate on a batch: per sample b and output dimension k the returned mean is the mean of
      the member means, and the returned variance is the mean member variance plus the population
      variance of the member means — with the members' means / bounded log-variances being exactly
      those of the joint forward pass. *)
  Theorem aggregate_batch_value n e X : ens_wf fwd n e -> pe_members e <> [] ->
    exists Mean Var, pe_aggregate fwd e (PBatch X) = Some (pe_of_mat Mean, pe_of_mat Var) /\
      length Mean = length X /\ length Var = length X /\
      forall b k, (b < length X)%nat -> (k < n)%nat ->
        nth k (nth b Mean []) 0 = meanR (pe_col2 (joint_means fwd e X) b k) /\
        nth k (nth b Var []) 0 = meanR (map exp (pe_col2 (joint_logvars fwd e X) b k))
                                 + varR (pe_col2 (joint_means fwd e X) b k).
  Proof.
    intros Hwf Hne. cbn [pe_aggregate]. unfold pe_aggregate_batch.
    rewrite slv_t3, to_t3_of_t3. do 2 eexists. split; [reflexivity|].
    rewrite !map_length, !seq_length. split; [reflexivity|]. split; [reflexivity|].
    intros b k Hb Hk.
    assert (Hn : length (nth 0 (nth 0 (map (fun m => pe_fwd_mean_b fwd m X) (pe_members e)) []) []) = n).
    { destruct Hwf as (_ & _ & Hm). destruct (pe_members e) as [|m0 ms] eqn:E; [congruence|].
      destruct X as [|x0 X']; [cbn in Hb; lia|]. cbn [map nth pe_fwd_mean_b].
      apply (Hm m0 x0). left; reflexivity. }
    rewrite Hn. rewrite !(nth_map_seq _ _ b) by exact Hb. rewrite !(nth_map_seq _ _ k) by exact Hk.
    rewrite pe_var_R, !nmean_R. unfold meanR. rewrite !map_length. unfold pe_col2, pe_fwd_mean_b, pe_fwd_lv_b, joint_means, joint_logvars.
    rewrite !map_map, !map_length. split; [reflexivity|]. cbn [nadd nexp nzero R_ops].
    f_equal. unfold Rdiv. f_equal. f_equal. apply map_ext. intro m. rewrite map_map. reflexivity.
  Qed.
End Aggregate.

(* ================================================================== *)
(** * 6. Gaussian negative log-likelihood: closed form *)

(** Density of N(mu, var) at y. *)
Definition gauss_pdf (y mu var : R) : R :=
  / sqrt (2 * PI * var) * exp (- ((y - mu) * (y - mu)) / (2 * var)).

Lemma ln_sqrt_half x : 0 < x -> ln (sqrt x) = ln x / 2.
Proof. intro H. rewrite <- Rpower_sqrt by exact H. unfold Rpower. rewrite ln_exp. lra. Qed.

Lemma neg_log_gauss y mu lv :
  - ln (gauss_pdf y mu (exp lv)) =
  / 2 * ((mu - y) * (mu - y)) * exp (- lv) + / 2 * lv + / 2 * ln (2 * PI).
Proof.
  unfold gauss_pdf. pose proof (exp_pos lv) as He. pose proof PI_RGT_0 as Hpi.
  assert (H2pi : 0 < 2 * PI) by lra.
  assert (Hp : 0 < 2 * PI * exp lv) by (apply Rmult_lt_0_compat; lra).
  assert (Hs : 0 < sqrt (2 * PI * exp lv)) by (apply sqrt_lt_R0; exact Hp).
  rewrite ln_mult; [|apply Rinv_0_lt_compat; exact Hs|apply exp_pos].
  rewrite ln_Rinv by exact Hs. rewrite ln_sqrt_half by exact Hp. rewrite ln_exp.
  rewrite ln_mult by lra. rewrite ln_exp. rewrite exp_Ropp. field. lra.
Qed.

Lemma nll_sum (mu : list R) : forall lv y, length lv = length mu -> length y = length mu ->
  nsum (pe_map3 (fun m l t => - ln (gauss_pdf t m (exp l))) mu lv y) =
  nsum (pe_map3 (fun m l t => pe_l2_loss m t * nexp (nneg l)) mu lv y) + / 2 * nsum lv
  + INR (length mu) * (/ 2 * ln (2 * PI)).
Proof.
  induction mu as [|m mu IH]; intros [|l lv] [|t y] Hl Hy; cbn in Hl, Hy; try lia.
  - unfold nsum; cbn; lra.
  - cbn [pe_map3 length]. rewrite !nsum_R_cons, IH by lia. rewrite S_INR, neg_log_gauss.
    unfold pe_l2_loss, nsq. rewrite pe_half_R. cbn [nmul nsub nexp nneg R_ops]. lra.
Qed.

(** gaussian_nll = average negative log-density of the diagonal Gaussian, minus the constant
    (1/2) ln (2 pi), for every number N >= 1 of (sample, output) entries. *)
Theorem nll_closed_form (mu lv y : list R) : mu <> [] -> length lv = length mu -> length y = length mu ->
  pe_gaussian_nll mu lv y =
  meanR (pe_map3 (fun m l t => - ln (gauss_pdf t m (exp l))) mu lv y) - / 2 * ln (2 * PI).
Proof.
  intros Hne Hl Hy. unfold pe_gaussian_nll, meanR. rewrite !nmean_R, nll_sum by assumption.
  rewrite !pe_map3_length, Hl, Hy, !Nat.min_id, pe_half_R. cbn [nadd nmul R_ops].
  assert (Hn : INR (length mu) <> 0) by (apply not_0_INR; destruct mu; [congruence|cbn; lia]).
  field. exact Hn.
Qed.

(* ================================================================== *)
(** * 7. Bootstrap rows, joint shuffle, per-member batches (nat lists) *)
Local Close Scope R_scope.
Local Open Scope nat_scope.

Lemma firstn_add_skipn {A} a b : forall l : list A, firstn (a + b) l = firstn a l ++ firstn b (skipn a l).
Proof. induction a as [|a IH]; intros [|x l]; cbn; try reflexivity; [destruct b; reflexivity|]. f_equal. apply IH. Qed.

Lemma concat_chunks {A} k n : forall l : list A, concat (pe_chunks k n l) = firstn (k * n) l.
Proof.
  induction k as [|k IH]; intro l; cbn [pe_chunks concat Nat.mul]; [reflexivity|].
  rewrite IH, firstn_add_skipn. reflexivity.
Qed.

Lemma chunks_length {A} k n (l : list A) : length (pe_chunks k n l) = k.
Proof. revert l; induction k as [|k IH]; intro l; cbn; [reflexivity|]. rewrite IH. reflexivity. Qed.

Lemma chunks_rows {A} k n : forall l : list A, k * n <= length l -> Forall (fun r => length r = n) (pe_chunks k n l).
Proof.
  induction k as [|k IH]; intros l H; cbn [pe_chunks]; constructor.
  - rewrite firstn_length. cbn in H. lia.
  - apply IH. rewrite skipn_length. cbn in H. lia.
Qed.

Lemma chunks_map {A B} (f : A -> B) k n : forall l, pe_chunks k n (map f l) = map (map f) (pe_chunks k n l).
Proof.
  induction k as [|k IH]; intro l; cbn [pe_chunks map]; [reflexivity|].
  rewrite firstn_map, skipn_map, IH. reflexivity.
Qed.

Lemma map2_cons_map {A B} (f : A -> B) r : forall T,
  pe_map2 cons (map f r) (map (map f) T) = map (map f) (pe_map2 cons r T).
Proof. induction r as [|x r IH]; intros [|t T]; cbn; try reflexivity. f_equal. apply IH. Qed.

Lemma transp_map {A B} (f : A -> B) n M : pe_transp n (map (map f) M) = map (map f) (pe_transp n M).
Proof.
  induction M as [|r M IH]; cbn [pe_transp map].
  - induction n; cbn; [reflexivity|]. f_equal. assumption.
  - rewrite IH. apply map2_cons_map.
Qed.

Lemma transp_length {A} n (M : list (list A)) : Forall (fun r => length r = n) M -> length (pe_transp n M) = n.
Proof.
  induction 1 as [|r M Hr _ IH]; cbn [pe_transp]; [apply repeat_length|].
  rewrite pe_map2_length, IH, Hr. apply Nat.min_id.
Qed.

Lemma nth_map2_cons {A} (d : A) q r : forall T, length r = length T -> q < length r ->
  nth q (pe_map2 cons r T) [] = nth q r d :: nth q T [].
Proof.
  revert q; induction r as [|x r IH]; intros q [|t T] Hl Hq; cbn in *; try lia.
  destruct q; [reflexivity|]. apply IH; lia.
Qed.

(** row q of the transposed matrix lists entry q of every original row *)
Lemma nth_transp {A} (d : A) n M q : Forall (fun r => length r = n) M -> q < n ->
  nth q (pe_transp n M) [] = map (fun r => nth q r d) M.
Proof.
  induction 1 as [|r M Hr HM IH]; intro Hq; cbn [pe_transp map].
  - rewrite nth_repeat. reflexivity.
  - rewrite (nth_map2_cons d) by (rewrite ?transp_length; lia || assumption). rewrite IH by exact Hq. reflexivity.
Qed.

Lemma transp_rows {A} n (M : list (list A)) : Forall (fun r => length r = n) M ->
  Forall (fun c => length c = length M) (pe_transp n M).
Proof.
  induction 1 as [|r M Hr HM IH]; cbn [pe_transp length].
  - apply Forall_forall. intros c Hc. apply repeat_spec in Hc. subst c. reflexivity.
  - pose proof (transp_length n M HM) as HL. revert IH. generalize (pe_transp n M) as T.
    clear. revert r. intros r T. revert r. induction T as [|t T IHT]; intros [|x r] HF; cbn; constructor.
    + cbn. inversion HF; subst. lia.
    + apply IHT. inversion HF; assumption.
Qed.

Lemma concat_repeat_nil {A} n : concat (repeat (@nil A) n) = [].
Proof. induction n; cbn; assumption || reflexivity. Qed.

Lemma concat_map2_cons_perm {A} (r : list A) : forall T, length r = length T ->
  Permutation (concat (pe_map2 cons r T)) (r ++ concat T).
Proof.
  induction r as [|x r IH]; intros [|t T] H; cbn in H; try lia; cbn [pe_map2 concat app]; [constructor|].
  constructor. eapply Permutation_trans; [apply Permutation_app_head, IH; lia|].
  apply Permutation_app_swap_app.
Qed.

(** transposing a rectangular matrix permutes its entries *)
Lemma transp_perm {A} n (M : list (list A)) : Forall (fun r => length r = n) M ->
  Permutation (concat (pe_transp n M)) (concat M).
Proof.
  induction 1 as [|r M Hr HM IH]; cbn [pe_transp concat].
  - rewrite concat_repeat_nil. constructor.
  - eapply Permutation_trans; [apply concat_map2_cons_perm; rewrite transp_length by exact HM; exact Hr|].
    apply Permutation_app_head, IH.
Qed.

Lemma NoDup_app_left {A} (l l' : list A) : NoDup (l ++ l') -> NoDup l.
Proof.
  induction l as [|x l IH]; cbn; intro H; [constructor|]. inversion H as [|? ? Hx Hr]; subst.
  constructor; [intro Hin; apply Hx, in_or_app; left; exact Hin|apply IH; exact Hr].
Qed.

Lemma keep_arith bs nb : 1 <= bs -> nb - nb mod bs = bs * (nb / bs) /\ (nb - nb mod bs) / bs = nb / bs /\ nb mod bs < bs.
Proof.
  intro H. pose proof (Nat.div_mod nb bs ltac:(lia)) as E. pose proof (Nat.mod_upper_bound nb bs ltac:(lia)) as U.
  assert (E1 : nb - nb mod bs = bs * (nb / bs)) by lia. split; [exact E1|]. split; [|exact U].
  rewrite E1, Nat.mul_comm. apply Nat.div_mul. lia.
Qed.

(** The positions read by the batches of one epoch (the same for every member, because the
    shuffle is joint): a rectangular (n_batches x batch_size) table, every position of the
    bootstrap row at most once, all in range, exactly the first nb - nb mod bs positions of
    the shuffled order; the dropped remainder is smaller than one batch. *)
Theorem epoch_positions_once bs nb perm : 1 <= bs -> Permutation perm (seq 0 nb) ->
  let P := pe_epoch_positions bs nb perm in
  length P = nb / bs /\ Forall (fun batch => length batch = bs) P /\
  Permutation (concat P) (firstn (nb - nb mod bs) perm) /\
  NoDup (concat P) /\ (forall j, In j (concat P) -> j < nb) /\
  length (concat P) = nb - nb mod bs /\ nb mod bs < bs.
Proof.
  intros Hbs Hperm. cbv zeta. unfold pe_epoch_positions.
  destruct (keep_arith bs nb Hbs) as (Ek & Ed & Hm). rewrite Ed.
  set (keep := nb - nb mod bs) in *. set (nbatch := nb / bs) in *.
  assert (Hlen : length perm = nb) by (rewrite (Permutation_length Hperm); apply seq_length).
  assert (Hkl : keep <= nb) by (unfold keep; lia).
  assert (Hfl : length (firstn keep perm) = keep) by (rewrite firstn_length; lia).
  assert (Hrows : Forall (fun r => length r = nbatch) (pe_chunks bs nbatch (firstn keep perm)))
    by (apply chunks_rows; rewrite Hfl; lia).
  assert (Hperm2 : Permutation (concat (pe_transp nbatch (pe_chunks bs nbatch (firstn keep perm)))) (firstn keep perm)).
  { eapply Permutation_trans; [apply transp_perm; exact Hrows|].
    rewrite concat_chunks. rewrite firstn_all2; [apply Permutation_refl|rewrite Hfl; lia]. }
  assert (Hnd : NoDup (firstn keep perm)).
  { assert (NoDup perm) by (eapply Permutation_NoDup; [apply Permutation_sym; exact Hperm|apply seq_NoDup]).
    rewrite <- (firstn_skipn keep perm) in H. apply NoDup_app_left in H. exact H. }
  split; [apply transp_length; exact Hrows|]. split.
  { pose proof (transp_rows nbatch _ Hrows) as HR. rewrite chunks_length in HR. exact HR. }
  split; [exact Hperm2|]. split.
  { eapply Permutation_NoDup; [apply Permutation_sym; exact Hperm2|exact Hnd]. }
  split.
  { intros j Hj. apply (Permutation_in _ Hperm2) in Hj.
    assert (In j perm) by (rewrite <- (firstn_skipn keep perm); apply in_or_app; left; exact Hj).
    apply (Permutation_in _ Hperm) in H. apply in_seq in H. lia. }
  split; [|exact Hm]. rewrite (Permutation_length Hperm2). exact Hfl.
Qed.

(** Member e's q-th batch reads ITS OWN bootstrap row — and nothing else — at the positions
    of batch q. All ensemble sizes >= 1, data-set sizes and batch sizes >= 1. *)
Theorem batches_from_own_bootstrap bs nb boot perm : 1 <= bs -> boot <> [] ->
  Forall (fun row => length row = nb) boot -> length perm = nb ->
  length (pe_epoch_batches bs boot perm) = nb / bs /\
  forall q e, q < nb / bs -> e < length boot ->
    nth e (nth q (pe_epoch_batches bs boot perm) []) [] =
    map (fun j => nth j (nth e boot []) 0) (nth q (pe_epoch_positions bs nb perm) []).
Proof.
  intros Hbs Hne Hrows Hlen. unfold pe_epoch_batches, pe_epoch_positions.
  assert (Hw : pe_boot_width boot = nb).
  { destruct boot as [|r0 boot']; [congruence|]. cbn. inversion Hrows; assumption. }
  rewrite Hw. destruct (keep_arith bs nb Hbs) as (Ek & Ed & Hm). rewrite Ed.
  set (keep := nb - nb mod bs) in *. set (nbatch := nb / bs) in *.
  assert (Hkl : keep <= nb) by (unfold keep; lia).
  assert (Hfl : length (firstn keep perm) = keep) by (rewrite firstn_length; lia).
  assert (HP : Forall (fun r => length r = nbatch) (pe_chunks bs nbatch (firstn keep perm)))
    by (apply chunks_rows; rewrite Hfl; lia).
  set (P := pe_transp nbatch (pe_chunks bs nbatch (firstn keep perm))).
  assert (HPl : length P = nbatch) by (apply transp_length; exact HP).
  (* per member: its table of batches is its own row read at the positions P *)
  assert (Hmember : map (pe_transp nbatch) (map (pe_chunks bs nbatch) (map (firstn keep) (pe_shuffle_rows boot perm)))
                    = map (fun row => map (map (fun j => nth j row 0)) P) boot).
  { unfold pe_shuffle_rows. rewrite !map_map. apply map_ext. intro row.
    rewrite firstn_map, chunks_map, transp_map. reflexivity. }
  rewrite Hmember.
  assert (HT : Forall (fun r => length r = nbatch) (map (fun row => map (map (fun j => nth j row 0)) P) boot)).
  { apply Forall_forall. intros T HT. apply in_map_iff in HT. destruct HT as (row & <- & _). rewrite map_length. exact HPl. }
  split; [apply transp_length; exact HT|].
  intros q e Hq He. rewrite (nth_transp [] nbatch _ q HT Hq). rewrite map_map.
  rewrite (nth_map_lt _ boot e []) by exact He.
  rewrite (nth_map_lt _ P q []) by (rewrite HPl; exact Hq). reflexivity.
Qed.

(* ================================================================== *)
(** * 8. Plan evaluation *)
Local Close Scope nat_scope.
Local Open Scope R_scope.

Lemma nsum_swap {A B} (f : A -> B -> R) (L1 : list A) (L2 : list B) :
  nsum (map (fun p => nsum (map (f p) L2)) L1) = nsum (map (fun h => nsum (map (fun p => f p h) L1)) L2).
Proof.
  induction L1 as [|p L1 IH]; cbn [map].
  - rewrite (nsum_R_ext _ (fun _ => 0)) by (intros; unfold nsum; reflexivity).
    rewrite nsum_R_map_const. unfold nsum at 1. cbn. lra.
  - rewrite nsum_R_cons, IH.
    rewrite (nsum_R_ext (fun h => nsum (f p h :: map (fun p0 => f p0 h) L1))
                        (fun h => f p h + nsum (map (fun p0 => f p0 h) L1))) by (intros; apply nsum_R_cons).
    rewrite nsum_R_map_add. reflexivity.
Qed.

Lemma map2_as_seq {A B C} (f : A -> B -> C) da db la : forall lb, (length la <= length lb)%nat ->
  pe_map2 f la lb = map (fun h => f (nth h la da) (nth h lb db)) (seq 0 (length la)).
Proof.
  induction la as [|a la IH]; intros [|b lb] H; cbn in H; try lia; try reflexivity.
  cbn [pe_map2 length seq map nth]. f_equal. rewrite <- seq_shift, map_map. apply IH. lia.
Qed.

Lemma nth_removelast {A} (d : A) l h : (S h < length l)%nat -> nth h (removelast l) d = nth h l d.
Proof.
  revert h; induction l as [|x l IH]; intros h H; [cbn in H; lia|].
  destruct l as [|y l]; [cbn in H; lia|]. cbn [removelast]. destruct h; [reflexivity|].
  cbn [nth]. apply IH. cbn in *. lia.
Qed.

Section Plans.
  Context {Act Obs : Type} (r : Act -> Obs -> R) (dact : Act) (dobs : Obs).

  (** evaluate_plans, entry s: the particle average of the summed rewards along the imagined
      trajectory (the action of step h paired with the observation of step h; the final
      observation unused) — for every number of plans, particles and every horizon. *)
  Theorem plan_value (actions : list (list Act)) (trajs : list (list (list Obs))) s H :
    (s < length actions)%nat -> (s < length trajs)%nat ->
    length (nth s actions []) = H -> Forall (fun traj => length traj = S H) (nth s trajs []) ->
    nth s (pe_evaluate_plans r actions trajs) 0 =
    meanR (map (fun traj => nsum (map (fun h => r (nth h (nth s actions []) dact) (nth h traj dobs)) (seq 0 H)))
               (nth s trajs [])).
  Proof.
    intros Ha Ht HH Hall. unfold pe_evaluate_plans. rewrite (pe_map2_nth _ [] []) by assumption.
    rewrite nmean_R. unfold meanR. rewrite !map_length. f_equal. f_equal.
    apply map_ext_in. intros traj Hin. rewrite Forall_forall in Hall. specialize (Hall traj Hin).
    rewrite (map2_as_seq _ dact dobs) by (rewrite removelast_firstn_len, firstn_length; lia).
    rewrite HH. f_equal. apply map_ext_in. intros h Hh. apply in_seq in Hh.
    rewrite nth_removelast by lia. reflexivity.
  Qed.

  (** The documented PE-TS objective: sum over the horizon of the particle-averaged reward. *)
  Theorem plan_value_sum_of_means (acts : list Act) (parts : list (list Obs)) H :
    meanR (map (fun traj => nsum (map (fun h => r (nth h acts dact) (nth h traj dobs)) (seq 0 H))) parts) =
    nsum (map (fun h => meanR (map (fun traj => r (nth h acts dact) (nth h traj dobs)) parts)) (seq 0 H)).
  Proof.
    unfold meanR. rewrite map_length.
    rewrite (nsum_swap (fun traj h => r (nth h acts dact) (nth h traj dobs)) parts (seq 0 H)).
    unfold Rdiv. rewrite Rmult_comm, <- nsum_R_map_scal. apply nsum_R_ext.
    intros h _. rewrite map_length. lra.
  Qed.
End Plans.

(* ================================================================== *)
(** * 9. Pendulum reward model = Gymnasium's PendulumEnv reward *)

Definition floorR (x : R) : R := IZR (Int_part x).
Definition norm_angleR (x : R) : R := pe_norm_angle (F := R) floorR PI x.

Lemma pe_two_R : pe_two (F := R) = 2.
Proof. unfold pe_two. cbn [nofQ R_ops]. unfold Q2R. cbn. lra. Qed.

(** ((x + pi) mod 2 pi) - pi is x shifted by a whole number of turns into [-pi, pi). *)
Lemma norm_angle_spec x : exists k : Z, norm_angleR x = x - 2 * PI * IZR k /\ - PI <= norm_angleR x < PI.
Proof.
  unfold norm_angleR, pe_norm_angle, pe_fmod, floorR. rewrite pe_two_R. cbn [nadd nsub nmul ndiv R_ops].
  pose proof PI_RGT_0 as Hpi. set (D := 2 * PI). assert (HD : 0 < D) by (unfold D; lra).
  set (q := (x + PI) / D). assert (Hq : q * D = x + PI) by (unfold q; field; lra).
  destruct (base_Int_part q) as [H1 H2]. set (k := Int_part q) in *.
  assert (A1 : IZR k * D <= q * D) by (apply Rmult_le_compat_r; lra).
  assert (A2 : q * D < (IZR k + 1) * D) by (apply Rmult_lt_compat_r; lra).
  assert (HD2 : D = 2 * PI) by reflexivity. clearbody D. clearbody q.
  exists k. split; [ring|]. split; nra.
Qed.

Lemma cos_shift_Z x (k : Z) : cos (x - 2 * PI * IZR k) = cos x.
Proof.
  destruct (Z_le_gt_dec 0 k) as [Hk|Hk].
  - rewrite <- (Z2Nat.id k Hk), <- INR_IZR_INZ.
    rewrite <- (cos_period (x - 2 * PI * INR (Z.to_nat k)) (Z.to_nat k)). f_equal. lra.
  - assert (Hk' : (0 <= - k)%Z) by lia.
    replace (IZR k) with (- IZR (- k)) by (rewrite opp_IZR; lra).
    rewrite <- (Z2Nat.id (- k) Hk'), <- INR_IZR_INZ.
    rewrite <- (cos_period x (Z.to_nat (- k))). f_equal. lra.
Qed.

(** The angle recovered from the cosine component has the same normalised square as the
    environment's angle — for EVERY real angle (including multiples of pi and |th| > pi). *)
Lemma norm_angle_acos_cos_sq th :
  norm_angleR (acos (cos th)) * norm_angleR (acos (cos th)) = norm_angleR th * norm_angleR th.
Proof.
  pose proof PI_RGT_0 as Hpi.
  destruct (norm_angle_spec th) as (k & Ek & Hlo & Hhi). set (t := norm_angleR th) in *.
  assert (Hcos : cos th = cos t) by (rewrite Ek; symmetry; apply cos_shift_Z).
  rewrite Hcos.
  assert (Ha : exists a, acos (cos t) = a /\ 0 <= a <= PI /\ a * a = t * t).
  { destruct (Rle_dec 0 t) as [Hpos|Hneg].
    - exists t. split; [apply acos_cos; lra|]. split; lra.
    - exists (- t). split; [rewrite <- cos_neg; apply acos_cos; lra|]. split; lra. }
  destruct Ha as (a & -> & [Ha0 Ha1] & Hsq). rewrite <- Hsq.
  destruct (norm_angle_spec a) as (k' & Ek' & Hlo' & Hhi'). set (n := norm_angleR a) in *.
  assert (Hk1 : (k' <= 1)%Z) by (apply le_IZR; nra).
  assert (Hk0 : (-1 < k')%Z) by (apply lt_IZR; nra).
  assert (Hk : k' = 0%Z \/ k' = 1%Z) by lia.
  destruct Hk as [-> | ->].
  - replace n with a by lra. reflexivity.
  - assert (a = PI) by lra. assert (n = - PI) by lra. subst a. rewrite H0. lra.
Qed.

Lemma Rleb_true a b : a <= b -> Rleb a b = true.
Proof. intro H. unfold Rleb. destruct (Rle_dec a b); [reflexivity|contradiction]. Qed.
Lemma Rleb_false a b : b < a -> Rleb a b = false.
Proof. intro H. unfold Rleb. destruct (Rle_dec a b); [lra|reflexivity]. Qed.

Lemma nclip_id_R x lo hi : lo <= x <= hi -> nclip x lo hi = x.
Proof.
  intros [H1 H2]. unfold nclip, nmax, nmin. cbn [nleb R_ops].
  destruct (Rle_dec x lo) as [Hx|Hx].
  - assert (x = lo) by lra. subst x. rewrite (Rleb_true lo lo) by lra. rewrite (Rleb_true lo hi) by lra. reflexivity.
  - rewrite (Rleb_false x lo) by lra. rewrite (Rleb_true x hi) by lra. reflexivity.
Qed.

(** The bundled Pendulum reward model, evaluated on the observation (cos th, sin th, thdot) that
    the environment emits in state (th, thdot), equals the environment's own reward
    -(angle_normalize(th)^2 + 0.1 thdot^2 + 0.001 clip(u, -2, 2)^2) for every state and action. *)
Theorem pendulum_reward_eq th thdot (act : list R) :
  pe_pendulum_reward acos floorR PI act [cos th; sin th; thdot] =
  pe_gym_pendulum_reward floorR PI th thdot act.
Proof.
  unfold pe_pendulum_reward, pe_gym_pendulum_reward. cbn [nth].
  rewrite (nclip_id_R (cos th)) by (cbn [nneg nunit R_ops]; pose proof (COS_bound th); lra).
  unfold nsq. fold (norm_angleR (acos (cos th))). fold (norm_angleR th).
  cbn [nmul nadd nneg R_ops]. rewrite norm_angle_acos_cos_sq. reflexivity.
Qed.

(** The environment's reward, written with plain real arithmetic. *)
Theorem gym_pendulum_reward_formula th thdot (u : R) :
  pe_gym_pendulum_reward floorR PI th thdot [u] =
  - (norm_angleR th * norm_angleR th + / 10 * (thdot * thdot)
     + / 1000 * (Rmin (Rmax u (-2)) 2 * Rmin (Rmax u (-2)) 2)).
Proof.
  unfold pe_gym_pendulum_reward. cbn [nth]. fold (norm_angleR th). unfold nsq.
  assert (Hc : nclip u (- pe_two)%num pe_two = Rmin (Rmax u (-2)) 2).
  { rewrite pe_two_R. unfold nclip, nmax, nmin. cbn [nleb nneg R_ops]. unfold Rleb, Rmax, Rmin.
    destruct (Rle_dec u (- (2))); destruct (Rle_dec u (-2)); try lra;
    repeat (match goal with |- context [Rle_dec ?a ?b] => destruct (Rle_dec a b) end); lra. }
  rewrite Hc. cbn [nmul nadd nneg nofQ R_ops]. unfold Q2R. cbn. lra.
Qed.

(* ================================================================== *)
(** * 10. aggregate on a single vector *)
Section AggregateVec.
  Context {M : Type} (fwd : M -> list R -> list R * list R).

  Theorem aggregate_vector_value n e x : ens_wf fwd n e -> pe_members e <> [] ->
    exists Mean Var, pe_aggregate fwd e (PVec x) = Some (pe_of_vec Mean, pe_of_vec Var) /\
      length Mean = n /\ length Var = n /\
      forall k, (k < n)%nat ->
        nth k Mean 0 = meanR (pe_col2 (joint_means fwd e [x]) 0 k) /\
        nth k Var 0 = meanR (map exp (pe_col2 (joint_logvars fwd e [x]) 0 k))
                      + varR (pe_col2 (joint_means fwd e [x]) 0 k).
  Proof.
    intros Hwf Hne. destruct (mn_length fwd e n Hwf) as [Hmn Hmx]. destruct Hwf as (_ & _ & Hm).
    cbn [pe_aggregate]. unfold pe_aggregate_vec. rewrite slv_mat, to_mat_of_mat.
    assert (Hn : length (nth 0 (map (fun m => fst (fwd m x)) (pe_members e)) []) = n).
    { destruct (pe_members e) as [|m0 ms]; [congruence|]. cbn [map nth]. apply (Hm m0 x). left; reflexivity. }
    rewrite Hn. do 2 eexists. split; [reflexivity|].
    rewrite !map_length, !seq_length. split; [reflexivity|]. split; [reflexivity|].
    intros k Hk. rewrite !(nth_map_seq _ _ k) by exact Hk.
    rewrite pe_var_R, !nmean_R. unfold meanR. rewrite !map_length.
    unfold pe_col1, pe_col2, joint_means, joint_logvars. rewrite !map_map, !map_length.
    cbn [map nth nzero R_ops]. split; reflexivity.
  Qed.
End AggregateVec.

(* ================================================================== *)
(** * 11. Packaged statements used by Props/C17.v *)
Theorem logvar_bounds_full (lv mn mx : R) :
  pe_safe_log_var lv mn mx = safeR lv mn mx /\
  mn < safeR lv mn mx /\ safeR lv mn mx < mx + ln (1 + exp (- (mx - mn))).
Proof. split; [apply pe_safe_log_var_R|apply safe_log_var_bounds]. Qed.

Theorem individual_pass_own_inputs (M : Type) (fwd : M -> list R -> list R * list R)
    (e : pe_ens) Xs i d : (i < length (pe_members e))%nat -> (i < length Xs)%nat ->
  pe_call3 fwd e Xs = Some (pe_of_t3 (indiv_means fwd e Xs), pe_of_t3 (indiv_logvars fwd e Xs)) /\
  nth i (indiv_means fwd e Xs) [] = map (fun x => fst (fwd (nth i (pe_members e) d) x)) (nth i Xs []) /\
  nth i (indiv_logvars fwd e Xs) [] =
    map (fun x => pe_map3 safeR (snd (fwd (nth i (pe_members e) d) x)) (pe_mn e) (pe_mx e)) (nth i Xs []).
Proof. intros Hi HX. split; [apply call3_indiv|apply indiv_member_own_inputs; assumption]. Qed.
