(** C18 — numeric building blocks (over R). *)
From Coq Require Import Reals List Bool Arith Lra Lia QArith.
From RLV Require Import Model.Num Model.Buffers Model.Tensor Model.Blocks Proofs.RingProofs Proofs.WeightsProofs Proofs.TabularProofs.
Import ListNotations.
Local Close Scope Q_scope.
Local Open Scope R_scope.

(* ---- basic facts about the R instance ---- *)
Lemma nmin_R a b : nmin (F := R) a b = Rmin a b.
Proof. unfold nmin; cbn. unfold Rmin, Rleb. destruct (Rle_dec a b); reflexivity. Qed.
Lemma nabs_R a : nabs (F := R) a = Rabs a.
Proof.
  unfold nabs; cbn. unfold Rleb. destruct (Rle_dec 0 a) as [H|H].
  - rewrite Rabs_right; lra.
  - rewrite Rabs_left; lra.
Qed.
Lemma nhalf_R : nhalf (F := R) = / 2.
Proof. unfold nhalf; cbn. unfold Q2R; cbn. lra. Qed.
Lemma nofnat_R n : nofnat (F := R) n = INR n.
Proof. unfold nofnat. cbn [nofQ R_ops]. unfold Q2R. cbn. rewrite INR_IZR_INZ. field. Qed.

Lemma nsum_R_from (l : list R) : forall a, fold_left nadd l a = a + fold_right Rplus 0 l.
Proof. induction l as [|x t IH]; intro a; cbn [fold_left fold_right]; [lra|]. rewrite IH. cbn. lra. Qed.
Lemma nsum_R (l : list R) : nsum l = fold_right Rplus 0 l.
Proof. unfold nsum. rewrite nsum_R_from. cbn. lra. Qed.
Definition rsum (l : list R) : R := fold_right Rplus 0 l.

(* ------------------------------------------------------------------ *)
(** ** Huber loss *)
Theorem huber_piecewise e delta : 0 <= e -> 0 <= delta ->
  huber e delta = if Rle_dec e delta then / 2 * (e * e) else delta * (e - / 2 * delta).
Proof.
  intros He Hd. unfold huber. rewrite nmin_R, nhalf_R. cbn [nadd nsub nmul R_ops].
  unfold Rmin. destruct (Rle_dec e delta); field.
Qed.

(* ------------------------------------------------------------------ *)
(** ** average-L1 normalisation *)
Lemma rsum_map_div (l : list R) d : rsum (map (fun v => v / d) l) = rsum l / d.
Proof. unfold rsum. induction l as [|x t IH]; cbn; [lra|]. rewrite IH. unfold Rdiv. lra. Qed.

Theorem avg_l1_mean_abs_one (x : list R) eps :
  x <> [] -> 0 < eps -> eps <= nmean (map nabs x) ->
  nmean (map nabs (avg_l1_norm x eps)) = 1.
Proof.
  intros Hne Heps Hm. unfold avg_l1_norm. rewrite nmax_R.
  set (m := nmean (map nabs x)) in *.
  rewrite Rmax_left by lra.
  unfold nmean. rewrite !map_length, !nsum_R, !nofnat_R.
  assert (Hlen : INR (length x) <> 0) by (apply not_0_INR; destruct x; [congruence|discriminate]).
  assert (Hm0 : 0 < m) by lra.
  assert (E : map nabs (map (fun v : R => (v / m)%num) x) = map (fun v => v / m) (map nabs x)).
  { rewrite !map_map. apply map_ext. intro a. rewrite !nabs_R. cbn [ndiv R_ops].
    unfold Rdiv. rewrite Rabs_mult, (Rabs_right (/ m)); [reflexivity|]. left. apply Rinv_0_lt_compat, Hm0. }
  rewrite E. fold (rsum (map (fun v => v / m) (map nabs x))). rewrite rsum_map_div.
  assert (Hmdef : m = rsum (map nabs x) / INR (length x)).
  { unfold m, nmean. rewrite map_length, nsum_R, nofnat_R. reflexivity. }
  set (S := rsum (map nabs x)) in *. set (n := INR (length x)) in *.
  assert (HS : S <> 0).
  { intro E0. rewrite E0 in Hmdef. unfold Rdiv in Hmdef. rewrite Rmult_0_l in Hmdef. lra. }
  cbn [ndiv R_ops]. rewrite Hmdef. field. split; assumption.
Qed.

(** near-zero input: every output entry is bounded by |x_i| / eps (finite) *)
Theorem avg_l1_finite (x : list R) eps i : 0 < eps ->
  Rabs (nth i (avg_l1_norm x eps) 0) <= Rabs (nth i x 0) / eps.
Proof.
  intro Heps. unfold avg_l1_norm. rewrite nmax_R. set (d := Rmax _ eps).
  assert (Hd : eps <= d) by apply Rmax_r.
  destruct (Nat.lt_ge_cases i (length x)) as [Hi|Hi].
  - rewrite (nth_map_in _ x i 0 0 Hi). cbn [ndiv R_ops]. unfold Rdiv. rewrite Rabs_mult.
    rewrite (Rabs_right (/ d)) by (left; apply Rinv_0_lt_compat; lra).
    apply Rmult_le_compat_l; [apply Rabs_pos|]. apply Rinv_le_contravar; lra.
  - rewrite !nth_overflow by (rewrite ?map_length; lia). rewrite Rabs_R0. unfold Rdiv. rewrite Rmult_0_l. lra.
Qed.

(* ------------------------------------------------------------------ *)
(** ** linear schedule *)
Lemma linspace_length (a b : R) k : length (linspace a b k) = k.
Proof. destruct k as [|[|k]]; cbn [linspace length]; try reflexivity. rewrite map_length, seq_length. reflexivity. Qed.

Lemma linspace_nth (a b : R) k i : (2 <= k)%nat -> (i < k)%nat ->
  nth i (linspace a b k) 0 = a + INR i * ((b - a) / INR (k - 1)).
Proof.
  intros Hk Hi. destruct k as [|[|k]]; try lia. cbn [linspace].
  rewrite (nth_map_in _ _ i 0%nat 0) by (rewrite seq_length; lia). rewrite seq_nth by lia.
  cbn [Nat.add nadd nmul ndiv nsub R_ops]. rewrite !nofnat_R. reflexivity.
Qed.

Theorem schedule_length total (a b : R) k : length (linear_schedule_k total a b k) = total.
Proof.
  unfold linear_schedule_k. rewrite app_length, repeat_length, firstn_length, linspace_length. lia.
Qed.

Theorem schedule_tail_const total (a b : R) k i : (k <= i < total)%nat ->
  nth i (linear_schedule_k total a b k) 0 = b.
Proof.
  intros Hi. unfold linear_schedule_k.
  assert (Hl : length (firstn total (linspace a b k)) = Nat.min total k) by (rewrite firstn_length, linspace_length; reflexivity).
  rewrite app_nth2 by lia. rewrite Hl.
  assert (G : forall n j (d v : R), (j < n)%nat -> nth j (repeat v n) d = v).
  { induction n as [|n IHn]; intros [|j'] d v Hj; cbn; try lia; auto. apply IHn; lia. }
  apply G. lia.
Qed.

Theorem schedule_ramp_value total (a b : R) k i : (2 <= k <= total)%nat -> (i < k)%nat ->
  nth i (linear_schedule_k total a b k) 0 = a + INR i * ((b - a) / INR (k - 1)).
Proof.
  intros Hk Hi. unfold linear_schedule_k.
  rewrite app_nth1 by (rewrite firstn_length, linspace_length; lia).
  assert (Hfull : firstn total (linspace a b k) = linspace a b k).
  { apply firstn_all2. rewrite linspace_length. lia. }
  rewrite Hfull. apply linspace_nth; lia.
Qed.

Theorem schedule_starts_at_start total (a b : R) k : (1 <= k <= total)%nat ->
  nth 0 (linear_schedule_k total a b k) 0 = a.
Proof.
  intros Hk. destruct (Nat.le_gt_cases 2 k) as [H2|H1].
  - rewrite schedule_ramp_value by lia. cbn [INR]. lra.
  - assert (k = 1%nat) by lia. subst k. unfold linear_schedule_k. cbn [linspace].
    destruct total as [|total]; [lia|]. reflexivity.
Qed.

(** monotone: with start >= end the schedule never increases (and symmetrically) *)
Theorem schedule_monotone total (a b : R) k i j : (k <= total)%nat -> b <= a ->
  (i <= j < total)%nat ->
  nth j (linear_schedule_k total a b k) 0 <= nth i (linear_schedule_k total a b k) 0.
Proof.
  intros Hk Hab Hij.
  destruct (Nat.lt_ge_cases j k) as [Hjk|Hjk].
  - (* both on the ramp *)
    destruct (Nat.le_gt_cases 2 k) as [H2|H1].
    + rewrite !schedule_ramp_value by lia.
      assert (Hpos : 0 < INR (k - 1)) by (apply lt_0_INR; lia).
      assert (Hle : INR i <= INR j) by (apply le_INR; lia).
      assert (Hstep : (b - a) / INR (k - 1) <= 0).
      { unfold Rdiv. assert (0 < / INR (k - 1)) by (apply Rinv_0_lt_compat, Hpos). nra. }
      nra.
    + assert (j = 0%nat) by lia. assert (i = 0%nat) by lia. subst. lra.
  - rewrite (schedule_tail_const total a b k j) by lia.
    destruct (Nat.lt_ge_cases i k) as [Hik|Hik].
    + destruct (Nat.le_gt_cases 2 k) as [H2|H1].
      * rewrite schedule_ramp_value by lia.
        assert (Hpos : 0 < INR (k - 1)) by (apply lt_0_INR; lia).
        assert (Hi1 : INR i <= INR (k - 1)) by (apply le_INR; lia).
        assert (Hi0 : 0 <= INR i) by apply pos_INR.
        assert (E : a + INR i * ((b - a) / INR (k - 1)) - b = (a - b) * (1 - INR i / INR (k - 1))) by (field; lra).
        assert (0 <= 1 - INR i / INR (k - 1)).
        { assert (INR i / INR (k - 1) <= 1); [|lra]. apply Rmult_le_reg_r with (INR (k - 1)); [exact Hpos|].
          unfold Rdiv. rewrite Rmult_assoc, Rinv_l by lra. lra. }
        nra.
      * assert (i = 0%nat) by lia. subst i. rewrite schedule_starts_at_start by lia. lra.
    + rewrite (schedule_tail_const total a b k i) by lia. lra.
Qed.

(* ------------------------------------------------------------------ *)
(** ** broadcasting lemmas and the masked MSE *)
Definition zipw {A B C} (f : A -> B -> C) (a : list A) (b : list B) : list C :=
  map (fun xy => f (fst xy) (snd xy)) (combine a b).

Lemma bzip_same {A B C} (f : A -> B -> C) a b : length a = length b -> bzip f a b = Ok (zipw f a b).
Proof. intro H. unfold bzip. rewrite H, Nat.eqb_refl. reflexivity. Qed.

Lemma bzip_col {A B C} (f : A -> B -> C) a y : (1 <= length a)%nat -> bzip f a [y] = Ok (map (fun x => f x y) a).
Proof.
  intro H. unfold bzip. destruct a as [|x [|x2 t]]; cbn in *; try lia; reflexivity.
Qed.

Definition mat {A} (n d : nat) (M : list (list A)) : Prop := length M = n /\ Forall (fun r => length r = d) M.

Lemma bop_mat (f : R -> R -> R) n d (P T : list (list R)) : mat n d P -> mat n d T ->
  bop f (T2 P) (T2 T) = Ok (T2 (zipw (zipw f) P T)).
Proof.
  intros [Hp HP] [Ht HT]. cbn [bop]. rewrite bzip_same by congruence. cbn [rbind].
  assert (G : rall (zipw (fun x y => bzip f x y) P T) = Ok (zipw (zipw f) P T)).
  { clear Hp Ht. revert T HT. induction HP as [|p P Hp _ IH]; intros [|t T] HT; cbn; try reflexivity.
    inversion HT; subst. rewrite bzip_same by congruence. cbn [rbind]. unfold zipw in IH. rewrite IH by assumption. reflexivity. }
  rewrite G. reflexivity.
Qed.

Lemma tmul_col n d (S : list (list R)) (mask : list R) : (1 <= d)%nat -> mat n d S -> length mask = n ->
  tmul (T2 S) (col mask) = Ok (T2 (zipw (fun row m => map (fun x => x * m) row) S mask)).
Proof.
  intros Hd [Hs HS] Hm. unfold tmul, col. cbn [bop]. rewrite bzip_same by (rewrite map_length; congruence).
  cbn [rbind].
  assert (G : rall (zipw (fun x y => bzip nmul x y) S (map (fun x => [x]) mask)) =
              Ok (zipw (fun row m => map (fun x => x * m) row) S mask)).
  { clear Hs Hm. revert mask. induction HS as [|s S Hsl _ IH]; intros [|m mask]; cbn; try reflexivity.
    rewrite bzip_col by lia. cbn [rbind]. unfold zipw in IH. rewrite IH. reflexivity. }
  rewrite G. reflexivity.
Qed.

Lemma zipw_mat {A B C} (f : A -> B -> C) n d (P : list (list A)) (T : list (list B)) :
  mat n d P -> mat n d T -> mat n d (zipw (zipw f) P T).
Proof.
  intros [Hp HP] [Ht HT]. split.
  - unfold zipw. rewrite map_length, combine_length. lia.
  - clear Hp Ht. revert T HT. induction HP as [|p P Hpl _ IH]; intros [|t T] HT; cbn; constructor.
    + inversion HT; subst. unfold zipw. rewrite map_length, combine_length. lia.
    + inversion HT; subst. apply IH. assumption.
Qed.

(** Closed form for 2-D predictions: mean over all N*D entries of sq_err * mask_row. *)
Theorem masked_mse_2d n d (P T : list (list R)) (mask : list R) :
  (1 <= d)%nat -> mat n d P -> mat n d T -> length mask = n ->
  masked_mse_loss (T2 P) (T2 T) mask =
  Ok (nmean (concat (zipw (fun row m => map (fun x => x * m) row) (zipw (zipw sqerr) P T) mask))).
Proof.
  intros Hd HP HT Hm. unfold masked_mse_loss. rewrite (bop_mat sqerr n d) by assumption. cbn [rbind].
  rewrite (tmul_col n d) by (auto using zipw_mat). cbn [rbind]. reflexivity.
Qed.

(** Masked rows have zero weight: predictions in rows whose mask entry is 0 do not matter. *)
Theorem masked_rows_zero_weight n d (P P' T : list (list R)) (mask : list R) :
  (1 <= d)%nat -> mat n d P -> mat n d P' -> mat n d T -> length mask = n ->
  (forall i, (i < n)%nat -> nth i mask 0 <> 0 -> nth i P [] = nth i P' []) ->
  masked_mse_loss (T2 P) (T2 T) mask = masked_mse_loss (T2 P') (T2 T) mask.
Proof.
  intros Hd HP HP' HT Hm Hrows. rewrite !(masked_mse_2d n d) by assumption. f_equal. f_equal. f_equal.
  destruct HP as [Hp HPr], HP' as [Hp' HPr'], HT as [Ht HTr].
  clear Hd. revert P' T mask n Hp Hp' HPr' Ht HTr Hm Hrows.
  induction HPr as [|p P Hpl _ IH]; intros [|p' P'] [|t T] [|m mask] n Hp Hp' HPr' Ht HTr Hm Hrows;
    cbn in *; try reflexivity; try lia.
  inversion HPr'; subst. inversion HTr; subst. f_equal.
  - destruct (Req_dec m 0) as [->|Hm0].
    + (* masked row: all products are 0 whatever the prediction *)
      assert (G : forall (a b : list R), length a = length b ->
                map (fun x => x * 0) a = map (fun x => x * 0) b).
      { induction a as [|x a IHa]; intros [|y b] Hl; cbn in *; try lia; auto. f_equal; [lra|apply IHa; lia]. }
      apply G. unfold zipw. rewrite !map_length, !combine_length. lia.
    + specialize (Hrows 0%nat ltac:(lia) Hm0). cbn in Hrows. subst p'. reflexivity.
  - eapply (IH P' T mask (length P)); eauto; try lia.
    intros i Hi Hne. apply (Hrows (S i)); [lia|exact Hne].
Qed.

(** 1-D predictions (as used for the termination and reward predictions of the model-based
    encoder): every sample is weighted by its own mask entry. *)
Theorem masked_mse_1d (p t mask : list R) : length p = length t -> length mask = length p ->
  masked_mse_loss (T1 p) (T1 t) mask = Ok (nmean (zipw (fun x m => x * m) (zipw sqerr p t) mask)).
Proof.
  intros H1 H2. unfold masked_mse_loss. cbn [bop]. rewrite bzip_same by exact H1. cbn [rbind rmap].
  unfold tmul. cbn [bop]. rewrite bzip_same by (unfold zipw; rewrite map_length, combine_length; lia).
  reflexivity.
Qed.

(* ------------------------------------------------------------------ *)
(** ** two-hot coding *)
Lemma argmin_from_spec (l : list R) : forall best bi k,
  let i := argmin_from best bi k l in
  (i = bi /\ Forall (fun x => best <= x) l) \/
  (exists j, i = (k + j)%nat /\ (j < length l)%nat /\ nth j l 0 < best /\
             Forall (fun x => nth j l 0 <= x) l).
Proof.
  induction l as [|x t IH]; intros best bi k; cbn [argmin_from].
  - left. split; [reflexivity|constructor].
  - unfold nltb. cbn [nleb R_ops]. destruct (Rleb_spec best x) as [Hle|Hgt]; cbn [negb].
    + destruct (IH best bi (S k)) as [[E Hall]|(j & E & Hj & Hb & Hall)].
      * left. split; [exact E|constructor; assumption].
      * right. exists (S j). cbn [nth length].
        split; [lia|]. split; [lia|]. split; [exact Hb|]. constructor; [lra|exact Hall].
    + apply Rnot_le_lt in Hgt.
      destruct (IH x k (S k)) as [[E Hall]|(j & E & Hj & Hb & Hall)].
      * right. exists 0%nat. cbn [nth length].
        split; [lia|]. split; [lia|]. split; [exact Hgt|]. constructor; [lra|exact Hall].
      * right. exists (S j). cbn [nth length].
        split; [lia|]. split; [lia|]. split; [lra|]. constructor; [lra|exact Hall].
Qed.

Lemma nargmin_min (l : list R) : l <> [] ->
  (nargmin l < length l)%nat /\ Forall (fun x => nth (nargmin l) l 0 <= x) l.
Proof.
  destruct l as [|x t]; [congruence|intros _]. unfold nargmin.
  destruct (argmin_from_spec t x 0%nat 1%nat) as [[E Hall]|(j & E & Hj & Hb & Hall)]; cbn zeta in *; rewrite E.
  - cbn [nth length]. split; [lia|constructor; [lra|exact Hall]].
  - cbn [Nat.add nth length]. split; [lia|constructor; [lra|exact Hall]].
Qed.

Lemma nargmin_unique (l : list R) j : (j < length l)%nat ->
  (forall k, (k < length l)%nat -> k <> j -> nth j l 0 < nth k l 0) -> nargmin l = j.
Proof.
  intros Hj Hmin. destruct (nargmin_min l) as [Hi Hall]; [destruct l; [cbn in Hj; lia|discriminate]|].
  destruct (Nat.eq_dec (nargmin l) j) as [E|Hne]; [exact E|exfalso].
  specialize (Hmin _ Hi Hne). rewrite Forall_forall in Hall.
  specialize (Hall (nth j l 0) (nth_In _ _ Hj)). lra.
Qed.

Definition big8R : R := 100000000.
Lemma big8_R : big8 (F := R) = big8R.
Proof. unfold big8, big8R; cbn. unfold Q2R; cbn. lra. Qed.

Lemma adj_diff_R x b :
  adj_diff x b = if Rlt_dec b x then x - b else if Req_EM_T b x then big8R else x - b + 2 * big8R.
Proof.
  unfold adj_diff, nsign, nltb. rewrite big8_R. cbn [nleb nsub nmul nadd nneg nunit nzero R_ops].
  unfold Rleb.
  destruct (Rlt_dec b x) as [H|H].
  - destruct (Rle_dec (x - b) 0); [lra|]. cbn [negb]. lra.
  - destruct (Rle_dec (x - b) 0) as [H1|H1]; [|lra]. cbn [negb].
    destruct (Req_EM_T b x) as [E|Ne].
    + subst. destruct (Rle_dec 0 (x - x)); [|lra]. cbn [negb]. lra.
    + destruct (Rle_dec 0 (x - b)); [lra|]. cbn [negb]. lra.
Qed.

Definition incr (bins : list R) : Prop :=
  forall i k, (i < k < length bins)%nat -> nth i bins 0 < nth k bins 0.

Lemma incr_tail b bins : incr (b :: bins) -> incr bins.
Proof. intros H i k Hik. apply (H (S i) (S k)). cbn; lia. Qed.

(** position of x among strictly increasing bins *)
Lemma bracket (bins : list R) x : incr bins -> (2 <= length bins)%nat ->
  nth 0 bins 0 < x -> x <= last bins 0 ->
  exists j, (S j < length bins)%nat /\ nth j bins 0 < x /\ x <= nth (S j) bins 0.
Proof.
  induction bins as [|b0 t IH]; intros Hinc Hlen H0 Hl; [cbn in Hlen; lia|].
  destruct t as [|b1 t']; [cbn in Hlen; lia|].
  destruct (Rle_dec x b1) as [Hle|Hgt].
  - exists 0%nat. cbn. repeat split; try lia; assumption.
  - apply Rnot_le_lt in Hgt.
    destruct t' as [|b2 t''].
    + cbn in Hl. lra.
    + destruct (IH (incr_tail _ _ Hinc)) as (j & Hj & Hlo & Hup); [cbn; lia|exact Hgt|exact Hl|].
      exists (S j). cbn [nth length] in *. repeat split; try lia; assumption.
Qed.

Lemma last_nth (l : list R) : l <> [] -> last l 0 = nth (length l - 1) l 0.
Proof.
  induction l as [|x t IH]; [congruence|intros _]. destruct t as [|y t']; [reflexivity|].
  change (last (x :: y :: t') 0) with (last (y :: t') 0). rewrite IH by discriminate.
  cbn [length]. replace (S (S (length t')) - 1)%nat with (S (S (length t') - 1)) by lia. reflexivity.
Qed.

(** ind_lo of the code = the last bin strictly below x (or 0 when x is the first edge) *)
Lemma two_hot_lo_spec (bins : list R) x j : incr bins -> (S j < length bins)%nat ->
  last bins 0 - nth 0 bins 0 < big8R ->
  ((nth j bins 0 < x /\ x <= nth (S j) bins 0) \/ (j = 0%nat /\ x = nth 0 bins 0)) ->
  two_hot_lo bins x = j.
Proof.
  intros Hinc Hj Hrange Hpos. unfold two_hot_lo.
  assert (Hne : bins <> []) by (destruct bins; [cbn in Hj; lia|discriminate]).
  assert (Hlast : forall k, (k < length bins)%nat -> nth k bins 0 <= last bins 0).
  { intros k Hk. rewrite last_nth by exact Hne.
    destruct (Nat.eq_dec k (length bins - 1)) as [->|Hn]; [lra|]. left. apply Hinc. lia. }
  assert (Hfirst : forall k, (k < length bins)%nat -> nth 0 bins 0 <= nth k bins 0).
  { intros [|k] Hk; [lra|]. left. apply Hinc. lia. }
  apply nargmin_unique; [rewrite map_length; lia|]. rewrite map_length. intros k Hk Hkj.
  rewrite !(nth_map_in _ bins _ 0 0) by lia. rewrite !adj_diff_R.
  pose proof (Hlast k Hk). pose proof (Hfirst k Hk). pose proof (Hlast j ltac:(lia)). pose proof (Hfirst j ltac:(lia)).
  pose proof (Hlast (S j) Hj). pose proof (Hfirst (S j) Hj).
  destruct Hpos as [[Hlo Hup]|[-> ->]].
  - destruct (Rlt_dec (nth j bins 0) x); [|lra].
    destruct (Nat.lt_ge_cases k j) as [Hlt|Hge].
    + assert (nth k bins 0 < nth j bins 0) by (apply Hinc; lia).
      destruct (Rlt_dec (nth k bins 0) x); [lra|lra].
    + assert (Hk' : nth (S j) bins 0 <= nth k bins 0).
      { destruct (Nat.eq_dec k (S j)) as [->|Hn]; [lra|]. left. apply Hinc. lia. }
      destruct (Rlt_dec (nth k bins 0) x); [lra|].
      destruct (Req_EM_T (nth k bins 0) x); lra.
  - destruct (Rlt_dec (nth 0 bins 0) (nth 0 bins 0)); [lra|].
    destruct (Req_EM_T (nth 0 bins 0) (nth 0 bins 0)); [|lra].
    assert (nth 0 bins 0 < nth k bins 0) by (apply Hinc; lia).
    destruct (Rlt_dec (nth k bins 0) (nth 0 bins 0)); [lra|].
    destruct (Req_EM_T (nth k bins 0) (nth 0 bins 0)); lra.
Qed.

(* sums / dot products of a row with two adjacent non-zero entries *)
Lemma rsum_upd2 n j a b : (S j < n)%nat ->
  rsum (upd (upd (repeat 0 n) j a) (S j) b) = a + b.
Proof.
  revert j; induction n as [|n IH]; intros j Hj; [lia|].
  destruct j as [|j].
  - destruct n as [|n]; [lia|].
    assert (G : forall m, fold_right Rplus 0 (repeat 0 m) = 0).
    { induction m as [|m IHm]; cbn [repeat fold_right]; [reflexivity|]. rewrite IHm. lra. }
    unfold rsum. cbn [repeat upd fold_right]. rewrite G. lra.
  - cbn [repeat upd]. unfold rsum in *. cbn [fold_right]. rewrite IH by lia. lra.
Qed.

Lemma dot_upd2 (bins : list R) j a b : (S j < length bins)%nat ->
  dot (upd (upd (repeat 0 (length bins)) j a) (S j) b) bins = a * nth j bins 0 + b * nth (S j) bins 0.
Proof.
  unfold dot. rewrite nsum_R. revert j; induction bins as [|x t IH]; intros j Hj; [cbn in Hj; lia|].
  destruct j as [|j].
  - destruct t as [|y t']; [cbn in Hj; lia|]. cbn.
    assert (G : forall (l : list R), fold_right Rplus 0 (map (fun xy => fst xy * snd xy) (combine (repeat 0 (length l)) l)) = 0).
    { induction l as [|z l IHl]; cbn; [lra|]. rewrite IHl. lra. }
    rewrite G. lra.
  - cbn [length repeat upd combine map fold_right nth fst snd]. rewrite IH by (cbn in Hj; lia). cbn. lra.
Qed.

(** Two-hot encoding of any value inside the bin range: non-negative, sums to one, at most
    two adjacent non-zero entries, decodes to the value (bin edges included). *)
Theorem two_hot_spec (bins : list R) x : incr bins -> (2 <= length bins)%nat ->
  nth 0 bins 0 <= x -> x <= last bins 0 -> last bins 0 - nth 0 bins 0 < big8R ->
  let row := two_hot_row bins x in
  length row = length bins /\ Forall (fun v => 0 <= v) row /\ rsum row = 1 /\ dot row bins = x /\
  exists j, (S j < length bins)%nat /\ forall k, k <> j -> k <> S j -> nth k row 0 = 0.
Proof.
  intros Hinc Hlen Hlo Hhi Hrange.
  assert (Hcase : exists j, (S j < length bins)%nat /\
            ((nth j bins 0 < x /\ x <= nth (S j) bins 0) \/ (j = 0%nat /\ x = nth 0 bins 0))).
  { destruct (Req_dec x (nth 0 bins 0)) as [E|Hne].
    - exists 0%nat. split; [lia|right; auto].
    - destruct (bracket bins x Hinc Hlen) as (j & Hj & H1 & H2); [lra|exact Hhi|]. exists j. split; [exact Hj|left; auto]. }
  destruct Hcase as (j & Hj & Hpos).
  pose proof (two_hot_lo_spec bins x j Hinc Hj Hrange Hpos) as Hlo_eq.
  cbn zeta. unfold two_hot_row. rewrite Hlo_eq.
  replace (Nat.min (j + 1) (length bins - 1)) with (S j) by lia.
  cbn [nsub ndiv nunit nzero R_ops].
  set (bl := nth j bins 0) in *. set (bu := nth (S j) bins 0) in *.
  assert (Hgap : bl < bu) by (apply Hinc; lia).
  set (w := (x - bl) / (bu - bl)).
  assert (Hw : 0 <= w <= 1).
  { unfold w. destruct Hpos as [[H1 H2]|[-> ->]].
    - split.
      + apply Rmult_le_pos; [lra|left; apply Rinv_0_lt_compat; lra].
      + apply Rmult_le_reg_r with (bu - bl); [lra|]. unfold Rdiv. rewrite Rmult_assoc, Rinv_l by lra. lra.
    - unfold Rdiv. subst bl. rewrite Rminus_diag_eq by reflexivity. lra. }
  split; [rewrite !upd_length, repeat_length; reflexivity|].
  split.
  { apply Forall_forall. intros v Hv. apply In_nth with (d := 0) in Hv. destruct Hv as (k & Hk & <-).
    rewrite !nth_upd. rewrite upd_length, repeat_length in *.
    destruct (Nat.eqb (S j) k); [destruct (Nat.ltb (S j) (length bins)); [lra|]|].
    all: destruct (Nat.eqb j k); [destruct (Nat.ltb j (length bins)); [lra|]|].
    all: try (rewrite nth_repeat; lra). }
  split; [rewrite rsum_upd2 by lia; lra|].
  split.
  { rewrite dot_upd2 by exact Hj. fold bl bu. unfold w. field. lra. }
  exists j. split; [exact Hj|]. intros k Hk1 Hk2.
  rewrite !nth_upd. destruct (Nat.eqb_spec (S j) k); [congruence|]. destruct (Nat.eqb_spec j k); [congruence|].
  apply nth_repeat.
Qed.

(* ------------------------------------------------------------------ *)
(** ** log-softmax / two-hot cross-entropy *)
Lemma rsum_exp_shift (l : list R) m : rsum (map (fun x => exp (x - m)) l) = exp (- m) * rsum (map exp l).
Proof.
  unfold rsum. induction l as [|x t IH]; cbn; [lra|]. rewrite IH.
  unfold Rminus. rewrite exp_plus. lra.
Qed.
Lemma rsum_exp_pos (l : list R) : l <> [] -> 0 < rsum (map exp l).
Proof.
  destruct l as [|x t]; [congruence|intros _]. unfold rsum. cbn.
  assert (0 <= fold_right Rplus 0 (map exp t)).
  { induction t as [|y t IH]; cbn; [lra|]. pose proof (exp_pos y). lra. }
  pose proof (exp_pos x). lra.
Qed.

(** log_softmax is the logarithm of the softmax probabilities. *)
Theorem log_softmax_spec (l : list R) i : (i < length l)%nat ->
  nth i (log_softmax l) 0 = ln (exp (nth i l 0) / rsum (map exp l)).
Proof.
  intro Hi. unfold log_softmax. set (m := nmaxl l).
  rewrite (nth_map_in _ l i 0 0 Hi). cbn [nsub nln nexp R_ops].
  rewrite nsum_R. fold (rsum (map (fun x => exp (x - m)) l)). rewrite rsum_exp_shift.
  assert (HS : 0 < rsum (map exp l)) by (apply rsum_exp_pos; destruct l; [cbn in Hi; lia|discriminate]).
  rewrite ln_mult by (try apply exp_pos; exact HS). rewrite ln_exp.
  unfold Rdiv. rewrite ln_mult by (try apply exp_pos; apply Rinv_0_lt_compat, HS).
  rewrite ln_exp, ln_Rinv by exact HS. lra.
Qed.

(** The two-hot cross-entropy is -sum(target * log softmax(logits)) by construction: *)
Theorem two_hot_ce_spec (bins logits : list R) target :
  two_hot_ce_row bins logits target = - dot (two_hot_row bins target) (log_softmax logits).
Proof. reflexivity. Qed.

(* ------------------------------------------------------------------ *)
(** ** symexp bins are strictly increasing (so the two-hot premise is met) *)
Lemma nsign_R b : nsign (F := R) b = if Rlt_dec 0 b then 1 else if Rlt_dec b 0 then -1 else 0.
Proof.
  unfold nsign, nltb. cbn [nleb nneg nunit nzero R_ops]. unfold Rleb.
  destruct (Rlt_dec 0 b); destruct (Rle_dec b 0); try lra; cbn [negb]; try reflexivity.
  destruct (Rlt_dec b 0); destruct (Rle_dec 0 b); try lra; cbn [negb]; reflexivity.
Qed.

Lemma symexp_R b : symexp b = if Rlt_dec 0 b then exp b - 1 else if Rlt_dec b 0 then 1 - exp (- b) else 0.
Proof.
  unfold symexp. rewrite nsign_R, nabs_R. cbn [nmul nsub nexp nunit R_ops].
  destruct (Rlt_dec 0 b).
  - rewrite Rabs_right by lra. lra.
  - destruct (Rlt_dec b 0).
    + rewrite Rabs_left by lra. lra.
    + lra.
Qed.

Lemma symexp_incr a b : a < b -> symexp a < symexp b.
Proof.
  intro Hab. rewrite !symexp_R.
  assert (E0 : exp 0 = 1) by apply exp_0.
  destruct (Rlt_dec 0 a); destruct (Rlt_dec 0 b); try lra.
  - pose proof (exp_increasing a b Hab). lra.
  - destruct (Rlt_dec a 0).
    + pose proof (exp_increasing 0 (- a) ltac:(lra)). pose proof (exp_increasing 0 b ltac:(lra)). lra.
    + pose proof (exp_increasing 0 b ltac:(lra)). lra.
  - destruct (Rlt_dec a 0); destruct (Rlt_dec b 0); try lra.
    + pose proof (exp_increasing (- b) (- a) ltac:(lra)). lra.
    + pose proof (exp_increasing 0 (- a) ltac:(lra)). lra.
Qed.

Theorem symexp_bins_increasing lo hi n : lo < hi -> (2 <= n)%nat -> incr (make_two_hot_bins lo hi n).
Proof.
  intros Hlh Hn i k Hik. unfold make_two_hot_bins in *. rewrite map_length, linspace_length in Hik.
  rewrite !(nth_map_in _ _ _ 0 0) by (rewrite linspace_length; lia).
  apply symexp_incr. rewrite !linspace_nth by lia.
  assert (Hpos : 0 < INR (n - 1)) by (apply lt_0_INR; lia).
  assert (Hlt : INR i < INR k) by (apply lt_INR; lia).
  assert (Hstep : 0 < (hi - lo) / INR (n - 1)) by (apply Rdiv_lt_0_compat; lra).
  nra.
Qed.
