From Coq Require Import ZArith List Bool Lia ZifyBool.
From RLV Require Import Model.Logger.
Import ListNotations.
Open Scope Z_scope.
Ltac Zify.zify_post_hook ::= Z.to_euclidean_division_equations.

(* ---- dictionary lemmas ---- *)
Lemma dget_dset {A} (d : list (Z * A)) k v k' :
  dget (dset d k v) k' = if Z.eqb k' k then Some v else dget d k'.
Proof.
  induction d as [|[k0 v0] d IH]; cbn [dset dget].
  - destruct (Z.eqb k' k); reflexivity.
  - destruct (Z.eqb k k0) eqn:E; cbn [dget].
    + apply Z.eqb_eq in E; subst k0. destruct (Z.eqb k' k); reflexivity.
    + destruct (Z.eqb k' k0) eqn:E2.
      * apply Z.eqb_eq in E2; subst k0.
        destruct (Z.eqb k' k) eqn:E3; [|reflexivity].
        apply Z.eqb_eq in E3; subst. rewrite Z.eqb_refl in E. discriminate.
      * exact IH.
Qed.

Lemma lget_dset {A} (d : list (Z * list A)) k v k' :
  lget (dset d k v) k' = if Z.eqb k' k then v else lget d k'.
Proof. unfold lget. rewrite dget_dset. destruct (Z.eqb k' k); reflexivity. Qed.

(* ---- refinement invariant ---- *)
Definition Inv (s : mlog) (sp : slog) : Prop :=
  m_episodes s = s_episodes sp /\ m_steps s = s_steps sp /\
  forall k, lget (m_loc s) k = map (fun r => (fst (fst r), snd (fst r))) (spec_get_stat sp k)
         /\ lget (m_val s) k = map snd (spec_get_stat sp k).

Lemma spec_get_stat_app sp_e sp_s l k key r :
  spec_get_stat {| s_episodes := sp_e; s_steps := sp_s; s_log := l ++ [(key, r)] |} k =
  spec_get_stat {| s_episodes := sp_e; s_steps := sp_s; s_log := l |} k
    ++ (if Z.eqb k key then [r] else []).
Proof.
  unfold spec_get_stat; cbn [s_log]. rewrite filter_app, map_app. cbn [filter fst].
  destruct (Z.eqb k key); reflexivity.
Qed.

Lemma record_stat_inv s sp key val ep st :
  Inv s sp ->
  Inv (record_stat s key val ep st)
      {| s_episodes := s_episodes sp; s_steps := s_steps sp;
         s_log := s_log sp ++ [(key, (odefault ep (s_episodes sp), odefault st (s_steps sp), val))] |}.
Proof.
  intros (He & Hs & Hk). unfold Inv, record_stat; cbn [m_episodes m_steps m_loc m_val s_episodes s_steps].
  split; [exact He|]. split; [exact Hs|]. intro k.
  rewrite !lget_dset, spec_get_stat_app.
  destruct (Hk k) as [H1 H2]. destruct (Hk key) as [H1k H2k].
  assert (Hsp : forall k0, spec_get_stat {| s_episodes := s_episodes sp; s_steps := s_steps sp; s_log := s_log sp |} k0
                 = spec_get_stat sp k0) by (intro; destruct sp; reflexivity).
  rewrite Hsp.
  destruct (Z.eqb k key) eqn:E.
  - apply Z.eqb_eq in E; subst k. rewrite !map_app, H1k, H2k, He, Hs. cbn. split; reflexivity.
  - rewrite !app_nil_r. split; assumption.
Qed.

Lemma mstep_inv std s sp o : Inv s sp -> Inv (mstep std s o) (sstep sp o).
Proof.
  intros HI. destruct o as [|total|key val ep st|key ep st|key f]; cbn [mstep sstep].
  - destruct HI as (He & Hs & Hk). unfold Inv; cbn. rewrite He. auto.
  - destruct HI as (He & Hs & Hk).
    set (s' := {| m_episodes := m_episodes s; m_steps := m_steps s + total; m_loc := m_loc s;
                  m_val := m_val s; m_epoch := m_epoch s; m_freq := m_freq s; m_ckpt := m_ckpt s |}).
    set (sp' := {| s_episodes := s_episodes sp; s_steps := s_steps sp + total; s_log := s_log sp |}).
    assert (HI' : Inv s' sp').
    { unfold Inv, s', sp'; cbn. rewrite He, Hs. repeat split; try reflexivity; apply Hk. }
    apply (record_stat_inv s' sp' k_episode_length total None None) in HI'.
    exact HI'.
  - apply record_stat_inv; exact HI.
  - destruct std; [|exact HI]. destruct HI as (He & Hs & Hk). unfold Inv; cbn. auto.
  - destruct std; [|exact HI]. destruct HI as (He & Hs & Hk). unfold Inv; cbn. auto.
Qed.

Lemma run_inv std ops s sp : Inv s sp -> Inv (fold_left (mstep std) ops s) (fold_left sstep ops sp).
Proof.
  revert s sp; induction ops as [|o ops IH]; intros s sp HI; cbn [fold_left]; [exact HI|].
  apply IH, mstep_inv, HI.
Qed.

Lemma inv_init : Inv mlog_init slog_init.
Proof. unfold Inv; cbn. repeat split; reflexivity. Qed.

Lemma combine_map_split {A B C} (f : C -> A) (g : C -> B) (l : list C) :
  combine (map f l) (map g l) = map (fun x => (f x, g x)) l.
Proof. induction l; cbn; congruence. Qed.

Theorem get_stat_refines std ops key :
  get_stat (mrun std ops) key = spec_get_stat (srun ops) key.
Proof.
  destruct (run_inv std ops _ _ inv_init) as (_ & _ & Hk).
  unfold get_stat, mrun, srun. destruct (Hk key) as [H1 H2]. rewrite H1, H2.
  rewrite combine_map_split. etransitivity; [|apply map_id].
  apply map_ext. intros [[a b] c]; reflexivity.
Qed.

(* ---- counters ---- *)
Lemma counters_gen std ops s :
  m_episodes (fold_left (mstep std) ops s) =
    fold_left (fun a o => match o with LStart => a + 1 | _ => a end) ops (m_episodes s) /\
  m_steps (fold_left (mstep std) ops s) =
    fold_left (fun a o => match o with LStop t => a + t | _ => a end) ops (m_steps s).
Proof.
  revert s; induction ops as [|o ops IH]; intro s; cbn [fold_left]; [split; reflexivity|].
  destruct (IH (mstep std s o)) as [H1 H2]. rewrite H1, H2.
  destruct o; destruct std; cbn; split; reflexivity.
Qed.

Theorem counters_exact std ops :
  m_episodes (mrun std ops) = count_start ops /\ m_steps (mrun std ops) = sum_stop ops.
Proof. apply counters_gen. Qed.

(* ---- LoggerList fan-out ---- *)
Lemma list_run_gen kinds ops ss :
  length ss = length kinds ->
  fold_left (list_step kinds) ops ss =
  map (fun ks => fold_left (mstep (fst ks)) ops (snd ks)) (combine kinds ss).
Proof.
  revert ss; induction ops as [|o ops IH]; intros ss Hl; cbn [fold_left].
  - revert ss Hl; induction kinds as [|k kinds IHk]; intros [|s ss] Hl; cbn in *; try discriminate; try reflexivity.
    f_equal. apply IHk. lia.
  - rewrite IH.
    + unfold list_step. clear IH. revert ss Hl.
      induction kinds as [|k kinds IHk]; intros [|s ss] Hl; cbn in *; try discriminate; try reflexivity.
      f_equal. apply IHk. lia.
    + unfold list_step. rewrite map_length, combine_length. lia.
Qed.

Theorem fanout_equal kinds ops :
  list_run kinds ops = map (fun k => mrun k ops) kinds.
Proof.
  unfold list_run. rewrite list_run_gen by (rewrite map_length; reflexivity).
  unfold mrun. induction kinds as [|k kinds IH]; cbn; [reflexivity|]. f_equal. exact IH.
Qed.

(* ---- checkpoint cadence ---- *)
Lemma due_spec f last step : 0 < f -> 0 <= last <= step ->
  due f last step = (last / f <? step / f).
Proof.
  intros Hf H. unfold due.
  destruct (step mod f <? last mod f) eqn:E1; destruct (f <=? step - last) eqn:E2;
  destruct (last / f <? step / f) eqn:E3; cbn; try reflexivity; exfalso; nia.
Qed.

Theorem fired_eq_crossings f last steps :
  0 < f -> 0 <= last -> nondecreasing_from last steps ->
  fired f last steps = crossings f last steps.
Proof.
  intros Hf. revert last; induction steps as [|s t IH]; intros last Hl Hnd; cbn; [reflexivity|].
  destruct Hnd as [Hle Hnd]. rewrite due_spec by lia. f_equal. apply IH; [lia|exact Hnd].
Qed.

(** The state machine, driven by one key's record_epoch calls with explicit
    steps, saves exactly at the fired positions. *)
Fixpoint saved_of (key : Z) (n : Z) (steps : list Z) (fl : list bool) : list (Z * (Z * Z)) :=
  match steps, fl with
  | s :: t, b :: bt => (if b then [(key, (s, n + 1))] else []) ++ saved_of key (n + 1) t bt
  | _, _ => []
  end.

Lemma crun_epochs key f steps : forall s last n,
  dget (c_freq s) key = Some f ->
  odefault (dget (c_last s) key) 0 = last ->
  odefault (dget (c_epoch s) key) 0 = n ->
  c_saved (fold_left cstep (map (fun st => LEpoch key None (Some st)) steps) s) =
  c_saved s ++ saved_of key n steps (fired f last steps).
Proof.
  induction steps as [|st t IH]; intros s last n Hf Hl Hn; cbn [map fold_left fired saved_of].
  - rewrite app_nil_r; reflexivity.
  - erewrite IH.
    + cbn [cstep c_saved odefault]. rewrite Hf, Hl, Hn.
      destruct (due f last st); cbn [c_saved]; rewrite <- ?app_assoc; reflexivity.
    + cbn [cstep c_freq]. exact Hf.
    + cbn [cstep c_last]. rewrite dget_dset, Z.eqb_refl. reflexivity.
    + cbn [cstep c_epoch]. rewrite dget_dset, Z.eqb_refl. cbn. rewrite Hn. reflexivity.
Qed.

Theorem one_checkpoint_per_crossing key f steps :
  0 < f -> nondecreasing_from 0 steps ->
  c_saved (crun (LDefFreq key f :: map (fun st => LEpoch key None (Some st)) steps)) =
  saved_of key 0 steps (crossings f 0 steps).
Proof.
  intros Hf Hnd. unfold crun. cbn [fold_left cstep].
  erewrite crun_epochs with (f := f) (last := 0) (n := 0).
  - cbn [c_saved app]. rewrite fired_eq_crossings by (auto; lia). reflexivity.
  - cbn. rewrite Z.eqb_refl. reflexivity.
  - cbn. rewrite Z.eqb_refl. reflexivity.
  - reflexivity.
Qed.

(** StandardLogger: checkpoint on every f-th recorded epoch of the key. *)
Fixpoint every_kth (key f n : Z) (cnt : nat) : list (Z * Z) :=
  match cnt with
  | O => []
  | S c => (if Z.eqb ((n + 1) mod f) 0 then [(key, n + 1)] else []) ++ every_kth key f (n + 1) c
  end.

Lemma std_epochs key f (eps : list (option Z * option Z)) : forall s n,
  dget (m_freq s) key = Some f ->
  odefault (dget (m_epoch s) key) 0 = n ->
  m_ckpt (fold_left (mstep true) (map (fun e => LEpoch key (fst e) (snd e)) eps) s) =
  m_ckpt s ++ every_kth key f n (length eps).
Proof.
  induction eps as [|e t IH]; intros s n Hf Hn; cbn [map fold_left length every_kth].
  - rewrite app_nil_r; reflexivity.
  - erewrite IH.
    + cbn [mstep m_ckpt]. rewrite Hf, Hn.
      destruct (Z.eqb ((n + 1) mod f) 0); cbn [m_ckpt]; rewrite <- ?app_assoc; reflexivity.
    + cbn [mstep m_freq]. exact Hf.
    + cbn [mstep m_epoch]. rewrite dget_dset, Z.eqb_refl. cbn. rewrite Hn. reflexivity.
Qed.

Theorem standard_every_kth key f eps :
  m_ckpt (mrun true (LDefFreq key f :: map (fun e => LEpoch key (fst e) (snd e)) eps)) =
  every_kth key f 0 (length eps).
Proof.
  unfold mrun. cbn [fold_left mstep].
  erewrite std_epochs with (f := f) (n := 0); [reflexivity| |reflexivity].
  cbn. rewrite Z.eqb_refl. reflexivity.
Qed.

(** Non-vacuity: a concrete non-decreasing sequence with repeats, a jump over
    several intervals and exact multiples. *)
Example cadence_example :
  nondecreasing_from 0 [3; 3; 10; 10; 37; 40; 41] /\
  crossings 10 0 [3; 3; 10; 10; 37; 40; 41] = [false; false; true; false; true; true; false].
Proof. cbn. repeat split; lia. Qed.
