(** C13 — policy heads: sampling, log-probability and entropy describe one distribution. *)
From Coq Require Import Reals List Bool Arith Lra Lia.
From RLV Require Import Model.Num Model.Blocks Model.Heads Proofs.RingProofs Proofs.WeightsProofs
  Proofs.TabularProofs Proofs.BlocksProofs.
Import ListNotations.
Local Open Scope R_scope.

Definition c2piR : R := ln (2 * PI) / 2.

(* ------------------------------------------------------------------ *)
(** ** softmax / categorical *)
Lemma softmax_nth (l : list R) i : (i < length l)%nat ->
  nth i (softmax l) 0 = exp (nth i l 0) / rsum (map exp l).
Proof.
  intro Hi. unfold softmax. set (m := nmaxl l).
  rewrite (nth_map_in _ _ i 0 0) by (rewrite map_length; exact Hi).
  rewrite (nth_map_in _ l i 0 0 Hi). cbn [nsub nexp ndiv R_ops].
  rewrite nsum_R. fold (rsum (map (fun x => exp (x - m)) l)). rewrite rsum_exp_shift.
  assert (HS : 0 < rsum (map exp l)) by (apply rsum_exp_pos; destruct l; [cbn in Hi; lia|discriminate]).
  unfold Rminus. rewrite exp_plus. field. split; [lra|]. pose proof (exp_pos (- m)). lra.
Qed.

(** softmax probabilities are positive and sum to one *)
Theorem softmax_pos_sum1 (l : list R) : l <> [] ->
  length (softmax l) = length l /\ Forall (fun p => 0 < p) (softmax l) /\ rsum (softmax l) = 1.
Proof.
  intro Hne.
  assert (HS : 0 < rsum (map exp l)) by (apply rsum_exp_pos; exact Hne).
  assert (Hlen : length (softmax l) = length l) by (unfold softmax; rewrite !map_length; reflexivity).
  split; [exact Hlen|]. split.
  - apply Forall_forall. intros p Hp. apply In_nth with (d := 0) in Hp. destruct Hp as (i & Hi & <-).
    rewrite Hlen in Hi. rewrite softmax_nth by exact Hi. apply Rdiv_lt_0_compat; [apply exp_pos|exact HS].
  - assert (E : softmax l = map (fun x => exp x / rsum (map exp l)) l).
    { apply nth_ext with (d := 0) (d' := 0); [rewrite Hlen, map_length; reflexivity|].
      intros i Hi. rewrite Hlen in Hi. rewrite softmax_nth by exact Hi.
      rewrite (nth_map_in _ l i 0 0 Hi). reflexivity. }
    rewrite E. set (S := rsum (map exp l)) in *.
    assert (G : forall l0, rsum (map (fun x => exp x / S) l0) = rsum (map exp l0) / S).
    { induction l0 as [|x t IH]; unfold rsum in *; cbn; [lra|]. rewrite IH. lra. }
    rewrite G. fold S. field. lra.
Qed.

(** the categorical log-probability is the log of the selected softmax entry *)
Theorem cat_logprob_spec (l : list R) a : (a < length l)%nat ->
  cat_logprob l a = ln (nth a (softmax l) 0).
Proof. intro Ha. unfold cat_logprob. cbn [nzero R_ops]. rewrite log_softmax_spec, softmax_nth by exact Ha. reflexivity. Qed.

(** ... and the entropy is -sum p ln p of the same probabilities *)
Theorem cat_entropy_spec (l : list R) : l <> [] ->
  cat_entropy l = - rsum (map (fun p => p * ln p) (softmax l)).
Proof.
  intro Hne. unfold cat_entropy. cbn [nneg R_ops]. f_equal. rewrite nsum_R. unfold rsum. f_equal.
  assert (Hlen : length (softmax l) = length l) by (unfold softmax; rewrite !map_length; reflexivity).
  assert (Hlen2 : length (log_softmax l) = length l) by (unfold log_softmax; rewrite map_length; reflexivity).
  apply nth_ext with (d := 0) (d' := 0); [rewrite !map_length, combine_length; lia|].
  intros i Hi. rewrite map_length, combine_length in Hi.
  rewrite (nth_map_in _ _ i (0, 0) 0) by (rewrite combine_length; lia).
  rewrite combine_nth by lia. cbn [fst snd nmul R_ops].
  rewrite (nth_map_in _ _ i 0 0) by lia.
  rewrite log_softmax_spec, softmax_nth by lia. reflexivity.
Qed.

(* ------------------------------------------------------------------ *)
(** ** Gaussian heads *)
Lemma nclip_R x lo hi : nclip (F := R) x lo hi = Rmin (Rmax x lo) hi.
Proof. unfold nclip. rewrite nmin_R, nmax_R. reflexivity. Qed.
Lemma m20_R : m20 (F := R) = -20.
Proof. unfold m20; cbn. unfold Q2R; cbn. lra. Qed.
Lemma ntwo_R : ntwo (F := R) = 2.
Proof. unfold ntwo; cbn. lra. Qed.

(** the standard deviation is clipped to [e^-20, e^2] whatever the raw log-variance *)
Theorem std_clipped_range lv : exp (-20) <= gauss_std lv <= exp 2 /\ 0 < gauss_std lv.
Proof.
  unfold gauss_std. rewrite nclip_R, m20_R, ntwo_R. cbn [nexp R_ops].
  set (c := Rmin (Rmax (nhalf * lv)%num (-20)) 2).
  assert (Hc : -20 <= c <= 2).
  { unfold c. split.
    - apply Rmin_glb; [apply Rmax_r|lra].
    - apply Rmin_r. }
  split; [split|apply exp_pos].
  - destruct (Req_dec (-20) c) as [<-|Hne]; [lra|]. left. apply exp_increasing. lra.
  - destruct (Req_dec c 2) as [->|Hne]; [lra|]. left. apply exp_increasing. lra.
Qed.

Lemma ln_sqrt' x : 0 < x -> ln (sqrt x) = ln x / 2.
Proof.
  intro Hx. assert (Hs : 0 < sqrt x) by (apply sqrt_lt_R0; exact Hx).
  assert (E : ln x = ln (sqrt x) + ln (sqrt x)).
  { rewrite <- ln_mult by assumption. rewrite sqrt_sqrt by lra. reflexivity. }
  lra.
Qed.

(** one dimension of the diagonal Gaussian log-density *)
Definition normal_pdf (m s a : R) : R := / (s * sqrt (2 * PI)) * exp (- ((a - m) / s) ^ 2 / 2).

Lemma gauss_logpdf_dim m lv a :
  let s := gauss_std lv in
  - ln s - c2piR - / 2 * ((a - m) / s * ((a - m) / s)) = ln (normal_pdf m s a).
Proof.
  cbn zeta. destruct (std_clipped_range lv) as [_ Hs]. set (s := gauss_std lv) in *.
  unfold normal_pdf, c2piR.
  assert (H2pi : 0 < 2 * PI) by (pose proof PI_RGT_0; lra).
  assert (Hsq : 0 < sqrt (2 * PI)) by (apply sqrt_lt_R0; exact H2pi).
  assert (Hden : 0 < s * sqrt (2 * PI)) by (apply Rmult_lt_0_compat; assumption).
  assert (Hinv : 0 < / (s * sqrt (2 * PI))) by (apply Rinv_0_lt_compat; exact Hden).
  rewrite (ln_mult _ _ Hinv (exp_pos _)). rewrite (ln_Rinv _ Hden). rewrite (ln_mult _ _ Hs Hsq).
  rewrite (ln_sqrt' _ H2pi). rewrite ln_exp. lra.
Qed.

(** The log-probability of the Gaussian heads is the closed-form diagonal-Gaussian
    log-density: the sum over action dimensions of ln N(a_d; mean_d, std_d). *)
Theorem gauss_logpdf_closed_form (mean lv act : list R) :
  gauss_logpdf c2piR mean lv act =
  rsum (map (fun mla => let '(m, l, a) := mla in ln (normal_pdf m (gauss_std l) a)) (combine (combine mean lv) act)).
Proof.
  unfold gauss_logpdf. rewrite nsum_R. unfold rsum. f_equal. apply map_ext. intros [[m l] a].
  cbn [nsub nneg nmul ndiv nln R_ops]. rewrite nhalf_R. apply gauss_logpdf_dim.
Qed.

(** per-dimension entropy = 0.5 * ln(2 pi e std^2) *)
Theorem gauss_entropy_closed_form (lv : list R) i : (i < length lv)%nat ->
  nth i (gauss_entropy c2piR lv) 0 = / 2 * ln (2 * PI * exp 1 * (gauss_std (nth i lv 0)) ^ 2).
Proof.
  intro Hi. unfold gauss_entropy. rewrite (nth_map_in _ lv i 0 0 Hi). cbn [nadd nln R_ops]. rewrite nhalf_R.
  destruct (std_clipped_range (nth i lv 0)) as [_ Hs]. set (s := gauss_std (nth i lv 0)) in *.
  assert (H2pi : 0 < 2 * PI) by (pose proof PI_RGT_0; lra).
  assert (He : 0 < exp 1) by apply exp_pos.
  assert (H1 : 0 < 2 * PI * exp 1) by (apply Rmult_lt_0_compat; assumption).
  assert (Hs2 : 0 < s ^ 2) by (apply pow_lt; exact Hs).
  unfold c2piR. rewrite (ln_mult _ _ H1 Hs2), (ln_mult _ _ H2pi He), ln_exp.
  replace (s ^ 2) with (s * s) by ring. rewrite (ln_mult _ _ Hs Hs). lra.
Qed.

(** a sample is mean + std * eps; standardising it recovers the noise exactly *)
Theorem gauss_sample_affine (mean lv eps : list R) i :
  (i < length mean)%nat -> length mean = length lv -> length lv = length eps ->
  nth i (gauss_sample mean lv eps) 0 = nth i mean 0 + gauss_std (nth i lv 0) * nth i eps 0 /\
  (nth i (gauss_sample mean lv eps) 0 - nth i mean 0) / gauss_std (nth i lv 0) = nth i eps 0.
Proof.
  intros Hi H1 H2. unfold gauss_sample.
  rewrite (nth_map_in _ _ i (0, 0, 0) 0) by (rewrite !combine_length; lia).
  rewrite !combine_nth by (rewrite ?combine_length; lia). cbn [nadd nmul R_ops].
  destruct (std_clipped_range (nth i lv 0)) as [_ Hs]. split; [ring|field; lra].
Qed.

(* ------------------------------------------------------------------ *)
(** ** greedy / epsilon-greedy selection *)
From RLV Require Import Model.Tabular Model.Greedy.

Lemma nltb_R a b : nltb (F := R) a b = true <-> a < b.
Proof. unfold nltb. cbn [nleb R_ops]. unfold Rleb. destruct (Rle_dec b a); cbn; split; intros; try discriminate; try lra; auto. Qed.

(** epsilon = 0 is greedy (for every roll >= 0) *)
Theorem eps0_greedy (t : table) s roll ra : 0 <= roll -> eps_greedy t s 0 roll ra = greedy t s.
Proof.
  intro H. unfold eps_greedy. destruct (nltb roll 0) eqn:E; [|reflexivity]. apply nltb_R in E. lra.
Qed.

(** epsilon = 1 ignores the values (for every roll in [0,1)) *)
Theorem eps1_value_independent (t t' : table) s roll ra : roll < 1 ->
  eps_greedy t s 1 roll ra = ra /\ eps_greedy t s 1 roll ra = eps_greedy t' s 1 roll ra.
Proof.
  intro H. unfold eps_greedy. assert (E : nltb roll 1 = true) by (apply nltb_R; exact H). rewrite E. split; reflexivity.
Qed.

(** DQN family: while the scheduled epsilon is 1 (or during warm-up) every roll in [0,1)
    explores; with epsilon 0 after warm-up the action is the arg-max of the current values. *)
Theorem dqn_explores_when_eps_one step ls roll ra q : roll < 1 -> dqn_choice step ls roll 1 ra q = ra.
Proof.
  intro H. unfold dqn_choice. assert (E : nltb roll 1 = true) by (apply nltb_R; exact H). rewrite E, orb_true_r. reflexivity.
Qed.
Theorem dqn_warmup_random step ls roll eps ra q : (step < ls)%nat -> dqn_choice step ls roll eps ra q = ra.
Proof. intro H. unfold dqn_choice. apply Nat.ltb_lt in H. rewrite H. reflexivity. Qed.
Theorem dqn_greedy_otherwise step ls roll eps ra (q : list R) : (ls <= step)%nat -> eps <= roll -> q <> [] ->
  let a := dqn_choice step ls roll eps ra q in
  (a < length q)%nat /\ Forall (fun x => x <= nth a q 0) q.
Proof.
  intros Hs Hr Hq. cbn zeta. unfold dqn_choice.
  assert (E1 : Nat.ltb step ls = false) by (apply Nat.ltb_ge; exact Hs).
  assert (E2 : nltb roll eps = false) by (destruct (nltb roll eps) eqn:E; [apply nltb_R in E; lra|reflexivity]).
  rewrite E1, E2. cbn [orb]. unfold greedy_net. destruct (argmax_is_max q Hq) as (H1 & H2 & _). split; assumption.
Qed.
