(** C16 — black-box optimisers (CMA-ES, cross-entropy method) keep their distribution and
    bookkeeping invariants. Theorems over R about Model/BlackBox.v. *)
From Coq Require Import Reals List Bool Arith Lra Lia Permutation Sorted.
From RLV Require Import Model.Num Model.Buffers Model.BlackBox
  Proofs.RingProofs Proofs.WeightsProofs Proofs.TabularProofs.
Import ListNotations.
Local Open Scope R_scope.

(* ================================================================== *)
(** * Stable insertion sort *)
Section SortProofs.
  Context {A : Type}.
  Variable lt : A -> A -> bool.
  Variable ord : A -> A -> Prop.        (* the original (index) order *)
  Hypothesis lt_trans : forall a b c, lt a b = true -> lt b c = true -> lt a c = true.
  Hypothesis lt_negtrans : forall a b c, lt a c = true -> lt a b = true \/ lt b c = true.
  Hypothesis lt_irrefl : forall a, lt a a = false.
  Hypothesis ord_trans : forall a b c, ord a b -> ord b c -> ord a c.

  (** key order, ties broken by the original order *)
  Definition lexR (a b : A) : Prop := lt a b = true \/ (lt b a = false /\ ord a b).

  Lemma lexR_trans a b c : lexR a b -> lexR b c -> lexR a c.
  Proof.
    intros [H1|[H1 O1]] [H2|[H2 O2]].
    - left. eapply lt_trans; eassumption.
    - left. destruct (lt_negtrans a c b H1) as [H|H]; [exact H|congruence].
    - left. destruct (lt_negtrans b a c H2) as [H|H]; [congruence|exact H].
    - right. split; [|eapply ord_trans; eassumption].
      destruct (lt c a) eqn:E; [|reflexivity].
      destruct (lt_negtrans c b a E) as [H|H]; congruence.
  Qed.

  Lemma lexR_not_lt a b : lexR a b -> lt b a = false.
  Proof.
    intros [H|[H _]]; [|exact H]. destruct (lt b a) eqn:E; [|reflexivity].
    pose proof (lt_trans a b a H E) as C. rewrite lt_irrefl in C. discriminate.
  Qed.

  Lemma ins_perm x l : Permutation (x :: l) (ins lt x l).
  Proof.
    induction l as [|y t IH]; cbn [ins]; [apply Permutation_refl|].
    destruct (lt y x); [|apply Permutation_refl].
    eapply perm_trans; [apply perm_swap|]. apply perm_skip, IH.
  Qed.

  Lemma isort_perm l : Permutation l (isort lt l).
  Proof.
    induction l as [|x t IH]; cbn [isort fold_right]; [constructor|].
    eapply perm_trans; [apply perm_skip, IH|apply ins_perm].
  Qed.

  Lemma ins_sorted x l : StronglySorted lexR l -> Forall (ord x) l -> StronglySorted lexR (ins lt x l).
  Proof.
    induction l as [|y t IH]; intros Hs Ho; cbn [ins].
    - constructor; constructor.
    - inversion Hs as [|? ? Hst Hy]; subst. inversion Ho as [|? ? Hxy Hxt]; subst.
      destruct (lt y x) eqn:E.
      + constructor; [apply IH; assumption|].
        eapply Permutation_Forall; [apply ins_perm|]. constructor; [left; exact E|exact Hy].
      + constructor; [exact Hs|]. constructor; [right; split; assumption|].
        rewrite Forall_forall in *. intros z Hz. apply lexR_trans with y; [right; split; assumption|].
        apply Hy, Hz.
  Qed.

  Lemma isort_sorted l : StronglySorted ord l -> StronglySorted lexR (isort lt l).
  Proof.
    induction l as [|x t IH]; intro Hs; cbn [isort fold_right]; [constructor|].
    inversion Hs as [|? ? Hst Hx]; subst. apply ins_sorted; [apply IH, Hst|].
    eapply Permutation_Forall; [apply isort_perm|exact Hx].
  Qed.
End SortProofs.

Lemma seq_sorted n : forall a, StronglySorted Nat.lt (seq a n).
Proof.
  induction n as [|n IH]; intro a; cbn [seq]; constructor; [apply IH|].
  rewrite Forall_forall. intros x Hx. apply in_seq in Hx. lia.
Qed.

Lemma SS_app_inv {A} (R : A -> A -> Prop) l1 l2 :
  StronglySorted R (l1 ++ l2) -> forall a b, In a l1 -> In b l2 -> R a b.
Proof.
  induction l1 as [|x t IH]; intros Hs a b Ha Hb; [destruct Ha|].
  cbn in Hs. inversion Hs as [|? ? Hst Hx]; subst. destruct Ha as [<-|Ha].
  - rewrite Forall_forall in Hx. apply Hx, in_or_app. right; exact Hb.
  - eapply IH; eassumption.
Qed.

Lemma SS_nth {A} (R : A -> A -> Prop) l d : StronglySorted R l ->
  forall p q, (p < q)%nat -> (q < length l)%nat -> R (nth p l d) (nth q l d).
Proof.
  induction 1 as [|x t Hst IH Hx]; intros p q Hpq Hq; [cbn in Hq; lia|].
  destruct q as [|q]; [lia|]. cbn [length] in Hq. destruct p as [|p]; cbn [nth].
  - rewrite Forall_forall in Hx. apply Hx, nth_In. lia.
  - apply IH; lia.
Qed.

(* ================================================================== *)
(** * Order facts about extended values over R *)
Definition xisnan (a : xval R) : bool := match a with XNaN => true | _ => false end.

Lemma xleb_fin x y : xleb (XFin x) (XFin y) = true <-> x <= y.
Proof. cbn. apply Rleb_true. Qed.

Lemma xleb_trans (a b c : xval R) : xleb a b = true -> xleb b c = true -> xleb a c = true.
Proof.
  destruct a, b, c; cbn; try congruence; try reflexivity.
  rewrite !Rleb_true. lra.
Qed.
Lemma xleb_total (a b : xval R) : xisnan a = false -> xisnan b = false -> xleb a b = false -> xleb b a = true.
Proof.
  destruct a, b; cbn; try congruence; try reflexivity.
  rewrite Rleb_true, Rleb_false. lra.
Qed.
Lemma xleb_refl (a : xval R) : xisnan a = false -> xleb a a = true.
Proof. destruct a; cbn; try congruence. intros _. rewrite Rleb_true. lra. Qed.
Lemma xleb_nonnan (a b : xval R) : xleb a b = true -> xisnan a = false /\ xisnan b = false.
Proof. destruct a, b; cbn; try congruence; auto. Qed.
Lemma xleb_posinf (a : xval R) : xleb a XPosInf = negb (xisnan a).
Proof. destruct a; reflexivity. Qed.

Lemma xsort_lt_trans (a b c : xval R) : xsort_lt a b = true -> xsort_lt b c = true -> xsort_lt a c = true.
Proof.
  destruct a, b, c; cbn; try congruence; try reflexivity.
  rewrite !negb_true_iff, !Rleb_false. lra.
Qed.
Lemma xsort_lt_negtrans (a b c : xval R) : xsort_lt a c = true -> xsort_lt a b = true \/ xsort_lt b c = true.
Proof.
  destruct a, b, c; cbn; try congruence; auto.
  rewrite !negb_true_iff, !Rleb_false. lra.
Qed.
Lemma xsort_lt_irrefl (a : xval R) : xsort_lt a a = false.
Proof. destruct a; cbn; try reflexivity. rewrite negb_false_iff, Rleb_true. lra. Qed.

Lemma xtop_lt_trans (a b c : xval R) : xtop_lt a b = true -> xtop_lt b c = true -> xtop_lt a c = true.
Proof.
  destruct a, b, c; cbn; try congruence; try reflexivity.
  rewrite !negb_true_iff, !Rleb_false. lra.
Qed.
Lemma xtop_lt_negtrans (a b c : xval R) : xtop_lt a c = true -> xtop_lt a b = true \/ xtop_lt b c = true.
Proof.
  destruct a, b, c; cbn; try congruence; auto.
  rewrite !negb_true_iff, !Rleb_false. lra.
Qed.
Lemma xtop_lt_irrefl (a : xval R) : xtop_lt a a = false.
Proof. destruct a; cbn; try reflexivity. rewrite negb_false_iff, Rleb_true. lra. Qed.

(** On non-NaN values "not strictly before" is the plain comparison. *)
Lemma xsort_lt_false (a b : xval R) : xisnan a = false -> xisnan b = false ->
  (xsort_lt b a = false <-> xleb a b = true).
Proof.
  destruct a, b; cbn; try congruence; intros _ _; try tauto; try (split; congruence).
  rewrite negb_false_iff. tauto.
Qed.
Lemma xtop_lt_false (a b : xval R) : xisnan a = false -> xisnan b = false ->
  (xtop_lt a b = false <-> xleb a b = true).
Proof.
  destruct a, b; cbn; try congruence; intros _ _; try tauto; try (split; congruence).
  rewrite negb_false_iff. tauto.
Qed.

(* ================================================================== *)
(** * Sums over R *)
Lemma fold_nadd_shift (l : list R) : forall d, fold_left nadd l d = d + fold_left nadd l 0.
Proof.
  induction l as [|x t IH]; intro d; cbn [fold_left]; [lra|].
  rewrite IH, (IH (nadd 0 x)). cbn [nadd R_ops]. lra.
Qed.
Lemma nsum_nil : nsum (F := R) [] = 0.
Proof. reflexivity. Qed.
Lemma nsum_cons x (t : list R) : nsum (x :: t) = x + nsum t.
Proof. unfold nsum. cbn [fold_left nzero R_ops]. rewrite fold_nadd_shift. cbn [nadd R_ops]. lra. Qed.

Lemma nsum_nonneg (l : list R) : Forall (fun x => 0 <= x) l -> 0 <= nsum l.
Proof. induction 1; [rewrite nsum_nil; lra|rewrite nsum_cons; lra]. Qed.
Lemma nsum_pos (l : list R) : l <> [] -> Forall (fun x => 0 < x) l -> 0 < nsum l.
Proof.
  intros Hne H. destruct H as [|x t Hx Ht]; [congruence|]. rewrite nsum_cons.
  assert (0 <= nsum t) by (apply nsum_nonneg; eapply Forall_impl; [|exact Ht]; cbn; intros; lra). lra.
Qed.
Lemma nsum_map_div (l : list R) s : nsum (map (fun x => (x / s)%num) l) = nsum l / s.
Proof.
  induction l as [|x t IH]; cbn [map]; [rewrite nsum_nil; unfold Rdiv; lra|].
  rewrite !nsum_cons, IH. cbn [ndiv R_ops]. unfold Rdiv. lra.
Qed.
Lemma nsum_map_le {A} (f g : A -> R) (l : list A) :
  (forall i, In i l -> f i <= g i) -> nsum (map f l) <= nsum (map g l).
Proof.
  induction l as [|x t IH]; intro H; cbn [map]; [lra|]. rewrite !nsum_cons.
  assert (f x <= g x) by (apply H; left; reflexivity).
  assert (nsum (map f t) <= nsum (map g t)) by (apply IH; intros; apply H; right; assumption). lra.
Qed.
Lemma nsum_map_ext {A} (f g : A -> R) (l : list A) :
  (forall i, In i l -> f i = g i) -> nsum (map f l) = nsum (map g l).
Proof. intro H. f_equal. apply map_ext_in. exact H. Qed.
Lemma nsum_map_mul_r {A} (f : A -> R) c (l : list A) : nsum (map (fun i => f i * c) l) = nsum (map f l) * c.
Proof. induction l as [|x t IH]; cbn [map]; [rewrite nsum_nil; lra|rewrite !nsum_cons, IH; lra]. Qed.

Lemma sumn_ext m (f g : nat -> R) : (forall i, (i < m)%nat -> f i = g i) -> sumn m f = sumn m g.
Proof. intro H. unfold sumn. apply nsum_map_ext. intros i Hi. apply in_seq in Hi. apply H. lia. Qed.
Lemma sumn_le m (f g : nat -> R) : (forall i, (i < m)%nat -> f i <= g i) -> sumn m f <= sumn m g.
Proof. intro H. unfold sumn. apply nsum_map_le. intros i Hi. apply in_seq in Hi. apply H. lia. Qed.
Lemma sumn_nonneg m (f : nat -> R) : (forall i, (i < m)%nat -> 0 <= f i) -> 0 <= sumn m f.
Proof.
  intro H. unfold sumn. apply nsum_nonneg. apply Forall_map. rewrite Forall_forall.
  intros i Hi. apply in_seq in Hi. apply H. lia.
Qed.
Lemma sumn_mul_r m (f : nat -> R) c : sumn m (fun i => f i * c) = sumn m f * c.
Proof. unfold sumn. apply nsum_map_mul_r. Qed.

Lemma map_nth_seq {A} (l : list A) d : map (fun i => nth i l d) (seq 0 (length l)) = l.
Proof.
  induction l as [|x t IH]; [reflexivity|]. cbn [length seq map nth]. f_equal.
  rewrite <- seq_shift, map_map. exact IH.
Qed.
Lemma sumn_nth (w : list R) : sumn (length w) (fun i => nth i w 0) = nsum w.
Proof. unfold sumn. rewrite map_nth_seq. reflexivity. Qed.

Lemma nth_map_seq {B} (f : nat -> B) n i d : (i < n)%nat -> nth i (map f (seq 0 n)) d = f i.
Proof.
  intro H. rewrite (nth_map' f (seq 0 n) i 0%nat d) by (rewrite seq_length; exact H).
  rewrite seq_nth by exact H. reflexivity.
Qed.

Lemma cst_R a b : cst (F := R) a b = IZR a / IZR (Z.pos (Z.to_pos b)).
Proof. reflexivity. Qed.
Ltac cstR := rewrite ?cst_R; cbn [Z.to_pos]; rewrite ?nofnat_R.

(** A convex combination stays between the bounds of its points. *)
Lemma convex_bounds m (w a : nat -> R) lo hi :
  (forall i, (i < m)%nat -> 0 <= w i) -> sumn m w = 1 ->
  (forall i, (i < m)%nat -> lo <= a i <= hi) ->
  lo <= sumn m (fun i => w i * a i) <= hi.
Proof.
  intros Hw Hs Ha. split.
  - replace lo with (sumn m w * lo) by (rewrite Hs; lra). rewrite <- sumn_mul_r.
    apply sumn_le. intros i Hi. specialize (Hw i Hi). specialize (Ha i Hi). nra.
  - replace hi with (sumn m w * hi) by (rewrite Hs; lra). rewrite <- sumn_mul_r.
    apply sumn_le. intros i Hi. specialize (Hw i Hi). specialize (Ha i Hi). nra.
Qed.

(* ================================================================== *)
(** * Recombination weights (CMAESConfig.create) *)
Lemma half_bound lam i : (i < lam / 2)%nat -> 1 + INR i <= INR lam / 2.
Proof.
  intro H. assert (H2 : (2 * (i + 1) <= lam)%nat) by (pose proof (Nat.mul_div_le lam 2); lia).
  apply le_INR in H2. rewrite mult_INR, plus_INR in H2. cbn [INR] in H2. lra.
Qed.

Lemma raw_weight_nth lam i : (i < lam / 2)%nat ->
  nth i (cma_raw_weights (F := R) lam) 0 = ln (INR lam / 2 + 1 / 2) - ln (1 + INR i).
Proof.
  intro Hi. unfold cma_raw_weights. cbv zeta. rewrite nth_map_seq by exact Hi.
  cbn [nadd nsub ndiv nln nunit R_ops]. cstR. f_equal; f_equal; lra.
Qed.
Lemma raw_weights_length lam : length (cma_raw_weights (F := R) lam) = (lam / 2)%nat.
Proof. unfold cma_raw_weights. cbv zeta. rewrite map_length, seq_length. reflexivity. Qed.

Lemma raw_weight_pos lam i : (i < lam / 2)%nat -> 0 < nth i (cma_raw_weights (F := R) lam) 0.
Proof.
  intro Hi. rewrite raw_weight_nth by exact Hi. pose proof (half_bound lam i Hi). pose proof (pos_INR i).
  assert (ln (1 + INR i) < ln (INR lam / 2 + 1 / 2)) by (apply ln_increasing; lra). lra.
Qed.

Lemma Forall_nth_iff {A} (P : A -> Prop) (l : list A) d :
  Forall P l <-> (forall i, (i < length l)%nat -> P (nth i l d)).
Proof.
  split.
  - intros H i Hi. rewrite Forall_forall in H. apply H, nth_In, Hi.
  - intro H. rewrite Forall_forall. intros x Hx. apply In_nth with (d := d) in Hx.
    destruct Hx as (i & Hi & <-). apply H, Hi.
Qed.

(** CMA-ES recombination weights ln(mu + 1/2) - ln(i + 1), normalised: positive,
    strictly decreasing (hence non-increasing), sum to one — for every population
    size >= 2 (so that mu = floor(lambda / 2) >= 1). *)
Theorem weights_pos_decreasing_sum1 lam : (2 <= lam)%nat ->
  let w := cma_weights (F := R) lam in
  length w = (lam / 2)%nat /\ (1 <= length w)%nat /\
  Forall (fun x => 0 < x) w /\
  (forall i j, (i < j)%nat -> (j < length w)%nat -> nth j w 0 < nth i w 0) /\
  nsum w = 1.
Proof.
  intro Hlam. cbv zeta. unfold cma_weights. cbv zeta.
  set (raw := cma_raw_weights (F := R) lam).
  assert (Hlen : length raw = (lam / 2)%nat) by apply raw_weights_length.
  assert (Hmu : (1 <= lam / 2)%nat) by (apply Nat.div_le_lower_bound; lia).
  assert (Hpos : Forall (fun x => 0 < x) raw).
  { apply (Forall_nth_iff _ raw 0). intros i Hi. apply raw_weight_pos. lia. }
  assert (Hs : 0 < nsum raw).
  { apply nsum_pos; [|exact Hpos]. destruct raw; [cbn [length] in Hlen; lia|discriminate]. }
  rewrite map_length. repeat split.
  - exact Hlen.
  - lia.
  - apply Forall_map. eapply Forall_impl; [|exact Hpos]. cbn. intros x Hx.
    apply Rdiv_lt_0_compat; assumption.
  - intros i j Hij Hj. rewrite Hlen in Hj.
    rewrite (nth_map' _ raw i 0 0), (nth_map' _ raw j 0 0) by lia.
    cbn [ndiv R_ops]. apply Rmult_lt_compat_r; [apply Rinv_0_lt_compat; exact Hs|].
    unfold raw. rewrite !raw_weight_nth by lia.
    assert (ln (1 + INR i) < ln (1 + INR j)).
    { apply ln_increasing; [pose proof (pos_INR i); lra|]. apply lt_INR in Hij. lra. }
    lra.
  - rewrite nsum_map_div. field. lra.
Qed.

(* ================================================================== *)
(** * The configuration's learning rates *)
Record cfg_ok (cfg : cma_cfg (F := R)) : Prop := {
  ok_mu : (1 <= c_mu cfg)%nat;
  ok_wlen : length (c_w cfg) = c_mu cfg;
  ok_wpos : Forall (fun x => 0 < x) (c_w cfg);
  ok_wsum : nsum (c_w cfg) = 1;
  ok_c1 : 0 < c_c1 cfg;
  ok_cmu : 0 < c_cmu cfg;
  ok_c1cmu : c_c1 cfg + c_cmu cfg < 1;
  ok_cc : 0 < c_cc cfg <= 1;
  ok_negcmu : 0 < c_negcmu cfg;
  ok_alpha : c_alpha cfg = 1 / 2 }.

Lemma pymin_R a b : pymin (F := R) a b = Rmin a b.
Proof.
  unfold pymin, nltb. cbn [nleb R_ops]. unfold Rmin, Rleb.
  destruct (Rle_dec a b); cbn [negb]; [reflexivity|]. reflexivity.
Qed.

Lemma nsq_R x : nsq (F := R) x = x * x.
Proof. reflexivity. Qed.

(** CMAESConfig.create yields admissible learning rates for every dimension >= 1 and
    population size >= 2. *)
Theorem cma_config_ok n lam : (1 <= n)%nat -> (2 <= lam)%nat -> cfg_ok (cma_config n lam).
Proof.
  intros Hn Hlam.
  destruct (weights_pos_decreasing_sum1 lam Hlam) as (Hwl & Hw1 & Hwp & _ & Hws).
  cbv zeta in *. set (w := cma_weights (F := R) lam) in *.
  assert (Hsq : 0 < nsum (map nsq w)).
  { apply nsum_pos; [destruct w; [cbn [length] in Hw1; lia|discriminate]|].
    apply Forall_map. eapply Forall_impl; [|exact Hwp]. cbn. intros x Hx. nra. }
  assert (Hnf : 1 <= INR n) by (apply le_INR in Hn; cbn [INR] in Hn; exact Hn).
  unfold cma_config. cbv zeta. fold w.
  set (m := (nunit / nsum (map nsq w))%num).
  assert (Hm : 0 < m) by (unfold m; cbn [ndiv nunit R_ops]; apply Rdiv_lt_0_compat; lra).
  clearbody m. cstR. cbn [nadd nsub nmul ndiv nunit nzero R_ops]. rewrite !nsq_R.
  set (nf := INR n) in *.
  set (c1 := 2 / 1 / ((nf + 13 / 10) * (nf + 13 / 10) + m)).
  assert (Hd1 : 2 < (nf + 13 / 10) * (nf + 13 / 10) + m) by nra.
  assert (Hc1 : 0 < c1 < 1).
  { unfold c1. split.
    - apply Rdiv_lt_0_compat; lra.
    - apply Rmult_lt_reg_r with ((nf + 13 / 10) * (nf + 13 / 10) + m); [lra|].
      unfold Rdiv at 1. rewrite Rmult_assoc, Rinv_l by lra. lra. }
  rewrite pymin_R.
  set (p := Rmin (1 - c1) (2 / 1 * m - 2 / 1 + 1 / m)).
  assert (Hp : 0 < p <= 1 - c1).
  { unfold p. split; [|apply Rmin_l]. apply Rmin_glb_lt; [lra|].
    assert (E : 2 / 1 * m - 2 / 1 + 1 / m = (m * m + (m - 1) * (m - 1)) / m) by (field; lra).
    rewrite E. apply Rdiv_lt_0_compat; [nra|lra]. }
  set (d2 := (nf + 2 / 1) * (nf + 2 / 1) + m).
  assert (Hd2 : 9 < d2) by (unfold d2; nra).
  assert (Hcmu : 0 < p / d2 /\ c1 + p / d2 < 1).
  { split; [apply Rdiv_lt_0_compat; lra|].
    assert (p / d2 < p).
    { apply Rmult_lt_reg_r with d2; [lra|]. unfold Rdiv. rewrite Rmult_assoc, Rinv_l by lra. nra. }
    lra. }
  constructor; cbn [c_mu c_w c_c1 c_cmu c_cc c_negcmu c_alpha].
  - rewrite <- Hwl. exact Hw1.
  - exact Hwl.
  - exact Hwp.
  - exact Hws.
  - apply Hc1.
  - apply Hcmu.
  - apply Hcmu.
  - assert (Ht : 0 < m / nf) by (apply Rdiv_lt_0_compat; lra).
    assert (E : 2 / 1 * m / nf = 2 * (m / nf)) by (field; lra). rewrite E.
    split.
    + apply Rdiv_lt_0_compat; lra.
    + apply Rmult_le_reg_r with (nf + 4 / 1 + 2 * (m / nf)); [lra|].
      unfold Rdiv at 1. rewrite Rmult_assoc, Rinv_l by lra. lra.
  - apply Rdiv_lt_0_compat.
    + apply Rmult_lt_0_compat; [apply Rmult_lt_0_compat|]; lra.
    + cbn [npow R_ops]. assert (0 < Rpow (nf + 2 / 1) (3 / 2)) by (apply Rpow_pos; lra). lra.
  - lra.
Qed.

(* ================================================================== *)
(** * Incumbent bookkeeping (set_evaluation_feedback) over all fitness sequences *)
(** One evaluation: the population at that time and the feedback handed in. *)
Definition eval_event := (list (list R) * list (xval R))%type.
Definition fb_step (lam : nat) (maximize : bool) (st : cma_state) (e : eval_event) : cma_state :=
  fst (set_feedback lam maximize st (fst e) [] (snd e)).
(** fitness_k = float(jnp.sum(feedback)), negated when maximising *)
Definition fitness_of (maximize : bool) (e : eval_event) : xval R :=
  if maximize then xneg (xsum (snd e)) else xsum (snd e).
(** the candidate handed out for evaluation number [it] (get_next_parameters) *)
Definition candidate_of (lam it : nat) (e : eval_event) : list R := nth (it mod lam) (fst e) [].

Definition IncInv (lam : nat) (maximize : bool) (p0 : list R) (evs : list eval_event) (st : cma_state) : Prop :=
  s_it st = length evs /\
  xisnan (s_best st) = false /\
  (forall t, (t < length evs)%nat -> xisnan (fitness_of maximize (nth t evs ([], []))) = false ->
             xleb (s_best st) (fitness_of maximize (nth t evs ([], []))) = true) /\
  ((s_best st = XPosInf /\ s_best_it st = 0%nat /\ s_best_params st = p0 /\
    forall t, (t < length evs)%nat -> xisnan (fitness_of maximize (nth t evs ([], []))) = true)
   \/
   (exists t, (t < length evs)%nat /\
      s_best st = fitness_of maximize (nth t evs ([], [])) /\
      s_best_it st = t /\
      s_best_params st = candidate_of lam t (nth t evs ([], [])) /\
      forall t', (t < t')%nat -> (t' < length evs)%nat ->
                 xleb (fitness_of maximize (nth t' evs ([], []))) (s_best st) = false)).

Lemma nth_snoc_old {A} (l : list A) x d t : (t < length l)%nat -> nth t (l ++ [x]) d = nth t l d.
Proof. intro H. apply app_nth1. exact H. Qed.
Lemma nth_snoc_new {A} (l : list A) x d : nth (length l) (l ++ [x]) d = x.
Proof. rewrite app_nth2 by lia. rewrite Nat.sub_diag. reflexivity. Qed.

Lemma inc_step lam maximize p0 evs st e :
  IncInv lam maximize p0 evs st -> IncInv lam maximize p0 (evs ++ [e]) (fb_step lam maximize st e).
Proof.
  intros (Hit & Hnn & Hmin & Hwho).
  unfold fb_step, set_feedback. cbv zeta. cbn [fst snd].
  fold (fitness_of maximize e). set (f := fitness_of maximize e).
  unfold IncInv. cbn [s_it s_best s_best_it s_best_params]. rewrite app_length. cbn [length].
  assert (Hcases : forall t, (t < length evs + 1)%nat -> (t < length evs)%nat \/ t = length evs) by (intros; lia).
  destruct (xleb f (s_best st)) eqn:E.
  - destruct (xleb_nonnan _ _ E) as [Hf _].
    split; [lia|]. split; [exact Hf|]. split.
    + intros t Ht Hnan. destruct (Hcases t Ht) as [Hold| ->].
      * rewrite nth_snoc_old in * by exact Hold. eapply xleb_trans; [exact E|]. apply Hmin; assumption.
      * rewrite nth_snoc_new. apply xleb_refl. exact Hf.
    + right. exists (length evs). rewrite nth_snoc_new. rewrite Hit.
      repeat split; try reflexivity; try lia.
  - split; [lia|]. split; [exact Hnn|]. split.
    + intros t Ht Hnan. destruct (Hcases t Ht) as [Hold| ->].
      * rewrite nth_snoc_old in * by exact Hold. apply Hmin; assumption.
      * rewrite nth_snoc_new in *. apply xleb_total; assumption.
    + destruct Hwho as [(Hb & Hbi & Hbp & Hall)|(t & Ht & Hb & Hbi & Hbp & Hlater)].
      * left. repeat split; try assumption. intros t Ht. destruct (Hcases t Ht) as [Hold| ->].
        -- rewrite nth_snoc_old by exact Hold. apply Hall, Hold.
        -- rewrite nth_snoc_new. fold f. rewrite Hb, xleb_posinf in E.
           destruct (xisnan f); [reflexivity|discriminate].
      * right. exists t. rewrite nth_snoc_old by exact Ht. repeat split; try assumption; try lia.
        intros t' Htt' Ht'. destruct (Hcases t' Ht') as [Hold| ->].
        -- rewrite nth_snoc_old by exact Hold. apply Hlater; assumption.
        -- rewrite nth_snoc_new. exact E.
Qed.

(** For every sequence of evaluations (arbitrary populations, arbitrary feedback including
    ties, +-inf and NaN), starting from CMAESState.create: the reported best fitness is <=
    every non-NaN fitness evaluated so far, is attained by an evaluated candidate whose
    parameters and evaluation number are the reported ones, and that candidate is the LAST
    one attaining it (the code compares with <=); if nothing comparable has been evaluated
    the report is (+inf, initial mean). *)
Theorem incumbent_is_best_so_far lam maximize mean variance cov invsqrt (evs : list eval_event) :
  IncInv lam maximize mean evs
         (fold_left (fb_step lam maximize) evs (cma_init mean variance cov invsqrt)).
Proof.
  induction evs as [|e evs IH] using rev_ind.
  - cbn [fold_left]. unfold IncInv, cma_init. cbn [s_it s_best s_best_it s_best_params length].
    repeat split; try reflexivity; try (intros; lia).
    left. repeat split; intros; lia.
  - rewrite fold_left_app. cbn [fold_left]. apply inc_step. exact IH.
Qed.

(** set_evaluation_feedback does not touch the search distribution. *)
Lemma set_feedback_frame lam maximize st samples popfit fb :
  let st' := fst (set_feedback lam maximize st samples popfit fb) in
  s_mean st' = s_mean st /\ s_var st' = s_var st /\ s_cov st' = s_cov st /\
  s_pc st' = s_pc st /\ s_ps st' = s_ps st /\ s_it st' = S (s_it st).
Proof. cbv zeta. unfold set_feedback. cbn. repeat split. Qed.

(* ================================================================== *)
(** * Ranking: jnp.argsort and lax.top_k *)
Definition sort_before (fit : list (xval R)) (i j : nat) : Prop :=
  xsort_lt (fit_at fit i) (fit_at fit j) = true \/
  (xsort_lt (fit_at fit j) (fit_at fit i) = false /\ (i < j)%nat).
Definition top_before (fit : list (xval R)) (i j : nat) : Prop :=
  xtop_lt (fit_at fit i) (fit_at fit j) = true \/
  (xtop_lt (fit_at fit j) (fit_at fit i) = false /\ (i < j)%nat).

(** jnp.argsort(fitness) is a permutation of the indices, sorted by fitness (NaN last),
    ties in index order. *)
Theorem argsort_spec (fit : list (xval R)) :
  Permutation (seq 0 (length fit)) (argsort fit) /\ StronglySorted (sort_before fit) (argsort fit).
Proof.
  split; [apply isort_perm|].
  apply (isort_sorted (fun i j => xsort_lt (fit_at fit i) (fit_at fit j)) Nat.lt).
  - intros a b c. apply xsort_lt_trans.
  - intros a b c. apply xsort_lt_negtrans.
  - intros a b c. apply Nat.lt_trans.
  - apply seq_sorted.
Qed.

Lemma argsort_length (fit : list (xval R)) : length (argsort fit) = length fit.
Proof.
  destruct (argsort_spec fit) as [Hp _]. rewrite <- (Permutation_length Hp). apply seq_length.
Qed.

Lemma sort_before_not_lt fit i j : sort_before fit i j -> xsort_lt (fit_at fit j) (fit_at fit i) = false.
Proof.
  intros [H|[H _]]; [|exact H]. destruct (xsort_lt (fit_at fit j) (fit_at fit i)) eqn:E; [|reflexivity].
  pose proof (xsort_lt_trans _ _ _ H E) as C. rewrite xsort_lt_irrefl in C. discriminate.
Qed.
Lemma top_before_not_lt fit i j : top_before fit i j -> xtop_lt (fit_at fit j) (fit_at fit i) = false.
Proof.
  intros [H|[H _]]; [|exact H]. destruct (xtop_lt (fit_at fit j) (fit_at fit i)) eqn:E; [|reflexivity].
  pose proof (xtop_lt_trans _ _ _ H E) as C. rewrite xtop_lt_irrefl in C. discriminate.
Qed.

Definition top_all (fit : list (xval R)) : list nat :=
  isort (fun i j => xtop_lt (fit_at fit i) (fit_at fit j)) (seq 0 (length fit)).
Lemma top_all_spec (fit : list (xval R)) :
  Permutation (seq 0 (length fit)) (top_all fit) /\ StronglySorted (top_before fit) (top_all fit).
Proof.
  split; [apply isort_perm|].
  apply (isort_sorted (fun i j => xtop_lt (fit_at fit i) (fit_at fit j)) Nat.lt).
  - intros a b c. apply xtop_lt_trans.
  - intros a b c. apply xtop_lt_negtrans.
  - intros a b c. apply Nat.lt_trans.
  - apply seq_sorted.
Qed.

Lemma NoDup_app_l {A} (l1 l2 : list A) : NoDup (l1 ++ l2) -> NoDup l1.
Proof.
  induction l1 as [|x t IH]; intro H; [constructor|]. cbn in H. inversion H as [|? ? Hn Ht]; subst.
  constructor; [intro Hin; apply Hn, in_or_app; left; exact Hin|apply IH, Ht].
Qed.
Lemma In_firstn {A} (l : list A) k x : In x (firstn k l) -> In x l.
Proof. intro H. rewrite <- (firstn_skipn k l). apply in_or_app. left; exact H. Qed.

(** The [k] selected indices of a sorted permutation are distinct, in range, and nothing
    outside the selection goes strictly before a selected one. *)
Lemma firstn_of_sorted_perm (Rel : nat -> nat -> Prop) n (r : list nat) k :
  Permutation (seq 0 n) r -> StronglySorted Rel r -> (k <= n)%nat ->
  length (firstn k r) = k /\ NoDup (firstn k r) /\ Forall (fun i => (i < n)%nat) (firstn k r) /\
  StronglySorted Rel (firstn k r) /\
  (forall i j, In i (firstn k r) -> (j < n)%nat -> ~ In j (firstn k r) -> Rel i j).
Proof.
  intros Hp Hs Hk.
  assert (Hlen : length r = n) by (rewrite <- (Permutation_length Hp); apply seq_length).
  assert (Hnd : NoDup r) by (eapply Permutation_NoDup; [exact Hp|apply seq_NoDup]).
  rewrite <- (firstn_skipn k r) in Hs, Hnd.
  split; [apply firstn_length_le; lia|]. split; [eapply NoDup_app_l; exact Hnd|]. split.
  - rewrite Forall_forall. intros i Hi. apply In_firstn in Hi.
    apply (Permutation_in _ (Permutation_sym Hp)) in Hi. apply in_seq in Hi. lia.
  - split.
    + clear - Hs. induction (firstn k r) as [|x t IH]; [constructor|].
      cbn in Hs. inversion Hs as [|? ? Hst Hx]; subst. constructor; [apply IH, Hst|].
      rewrite Forall_forall in *. intros y Hy. apply Hx, in_or_app. left; exact Hy.
    + intros i j Hi Hj Hnj. eapply SS_app_inv; [exact Hs|exact Hi|].
      assert (Hin : In j r) by (apply (Permutation_in _ Hp), in_seq; lia).
      rewrite <- (firstn_skipn k r) in Hin. apply in_app_or in Hin. tauto.
Qed.

Lemma nth_firstn' {A} (l : list A) k i d : (i < k)%nat -> nth i (firstn k l) d = nth i l d.
Proof.
  revert k i; induction l as [|x t IH]; intros k i H; [rewrite firstn_nil; reflexivity|].
  destruct k as [|k]; [lia|]. cbn [firstn]. destruct i as [|i]; cbn [nth]; [reflexivity|]. apply IH. lia.
Qed.

(* ================================================================== *)
(** * Mean recombination *)
Lemma select_nth (samples : list (list R)) idx i : (i < length idx)%nat ->
  nth i (select samples idx) [] = nth (nth i idx 0%nat) samples [].
Proof. intro H. unfold select. rewrite (nth_map' _ idx i 0%nat []) by exact H. reflexivity. Qed.

Lemma mk_vec_nth n (f : nat -> R) j : (j < n)%nat -> nth j (mk_vec n f) 0 = f j.
Proof. intro H. unfold mk_vec. apply nth_map_seq. exact H. Qed.
Lemma mk_vec_length n (f : nat -> R) : length (mk_vec n f) = n.
Proof. unfold mk_vec. rewrite map_length, seq_length. reflexivity. Qed.
Lemma mget_mk_mat n (f : nat -> nat -> R) j k : (j < n)%nat -> (k < n)%nat -> mget (mk_mat n f) j k = f j k.
Proof.
  intros Hj Hk. unfold mget, mk_mat. rewrite (nth_map_seq (fun j => map (f j) (seq 0 n)) n j [] Hj).
  apply nth_map_seq. exact Hk.
Qed.

(** After update_search_distribution the mean is sum_i w_i * x_(r_i) over the first mu entries
    of the fitness ranking r; r is a permutation of the population sorted by fitness (NaN last,
    ties by index), so no unselected candidate is strictly better than a selected one; the old
    mean becomes last_mean. With admissible weights the new mean is a convex combination:
    every coordinate lies between the bounds of the selected candidates' coordinates. *)
Theorem mean_is_weighted_elite_avg cfg active st samples (fitness : list (xval R)) :
  (c_mu cfg <= length fitness)%nat ->
  let r := argsort fitness in
  let st' := cma_update cfg active st samples fitness in
  Permutation (seq 0 (length fitness)) r /\ StronglySorted (sort_before fitness) r /\
  (forall p q, (p < c_mu cfg)%nat -> (c_mu cfg <= q)%nat -> (q < length fitness)%nat ->
     xsort_lt (fit_at fitness (nth q r 0%nat)) (fit_at fitness (nth p r 0%nat)) = false) /\
  length (s_mean st') = c_n cfg /\ s_last_mean st' = s_mean st /\
  (forall j, (j < c_n cfg)%nat ->
     nth j (s_mean st') 0 =
     sumn (c_mu cfg) (fun i => nth i (c_w cfg) 0 * nth j (nth (nth i r 0%nat) samples []) 0)) /\
  (cfg_ok cfg -> forall j lo hi, (j < c_n cfg)%nat ->
     (forall i, (i < c_mu cfg)%nat -> lo <= nth j (nth (nth i r 0%nat) samples []) 0 <= hi) ->
     lo <= nth j (s_mean st') 0 <= hi).
Proof.
  intro Hmu. cbv zeta. destruct (argsort_spec fitness) as [Hp Hs].
  pose proof (argsort_length fitness) as Hlen.
  assert (Hmean : forall j, (j < c_n cfg)%nat ->
     nth j (s_mean (cma_update cfg active st samples fitness)) 0 =
     sumn (c_mu cfg) (fun i => nth i (c_w cfg) 0 * nth j (nth (nth i (argsort fitness) 0%nat) samples []) 0)).
  { intros j Hj. unfold cma_update. cbv zeta. cbn [s_mean]. unfold recombine.
    rewrite mk_vec_nth by exact Hj. apply sumn_ext. intros i Hi. unfold vget.
    rewrite select_nth by (rewrite firstn_length_le; lia). rewrite nth_firstn' by exact Hi. reflexivity. }
  split; [exact Hp|]. split; [exact Hs|]. split.
  { intros p q Hpq Hq Hql. apply sort_before_not_lt. apply SS_nth; [exact Hs|lia|lia]. }
  split; [unfold cma_update; cbv zeta; cbn [s_mean]; unfold recombine; apply mk_vec_length|].
  split; [reflexivity|]. split; [exact Hmean|].
  intros Hok j lo hi Hj Hb. rewrite Hmean by exact Hj.
  destruct Hok as [_ Hwl Hwp Hws _ _ _ _ _ _].
  apply convex_bounds; [| |exact Hb].
  - intros i Hi. rewrite Forall_forall in Hwp. left. apply Hwp, nth_In. lia.
  - rewrite <- Hwl. rewrite sumn_nth. exact Hws.
Qed.

(* ================================================================== *)
(** * Step size *)
Lemma step_factor_R lss : step_factor (F := R) lss = exp (Rmin (6 / 10) lss) * exp (Rmin (6 / 10) lss).
Proof. unfold step_factor. rewrite pymin_R, nsq_R. cstR. reflexivity. Qed.

(** var' = var * exp(min(0.6, .))^2: the step size sigma = sqrt(var) grows by at most the
    documented factor exp(0.6) and stays positive. *)
Theorem sigma_growth_bounded cfg active st samples (fitness : list (xval R)) :
  0 <= s_var st ->
  let st' := cma_update cfg active st samples fitness in
  sqrt (s_var st') <= sqrt (s_var st) * exp (6 / 10) /\
  s_var st' <= s_var st * (exp (6 / 10) * exp (6 / 10)) /\
  (0 < s_var st -> 0 < s_var st').
Proof.
  intro Hv. cbv zeta. unfold cma_update. cbv zeta. cbn [s_var].
  match goal with |- context [step_factor ?l] => set (lss := l) end.
  rewrite step_factor_R. cbn [nmul R_ops]. set (e := exp (Rmin (6 / 10) lss)).
  assert (He : 0 < e) by apply exp_pos.
  assert (Hle : e <= exp (6 / 10)).
  { unfold e. destruct (Rle_lt_or_eq_dec _ _ (Rmin_l (6 / 10) lss)) as [H|H].
    - left. apply exp_increasing. exact H.
    - rewrite H. lra. }
  repeat split.
  - rewrite sqrt_mult by nra. rewrite sqrt_square by lra.
    apply Rmult_le_compat_l; [apply sqrt_pos|exact Hle].
  - apply Rmult_le_compat_l; [exact Hv|]. nra.
  - intro Hp. apply Rmult_lt_0_compat; [exact Hp|apply Rmult_lt_0_compat; exact He].
Qed.

(* ================================================================== *)
(** * Covariance *)
Definition msym (n : nat) (M : list (list R)) : Prop :=
  forall j k, (j < n)%nat -> (k < n)%nat -> mget M j k = mget M k j.
Definition mshape (n : nat) (M : list (list R)) : Prop :=
  length M = n /\ Forall (fun row => length row = n) M.

Lemma rank_mu_sym mu (w : list R) Y j k : rank_mu mu w Y j k = rank_mu mu w Y k j.
Proof. unfold rank_mu. apply sumn_ext. intros i _. cbn [nmul R_ops]. ring. Qed.

Lemma rank_mu_diag_nonneg mu (w : list R) Y j :
  (forall i, (i < mu)%nat -> 0 <= vget w i) -> 0 <= rank_mu mu w Y j j.
Proof.
  intro Hw. unfold rank_mu. apply sumn_nonneg. intros i Hi. specialize (Hw i Hi). cbn [nmul R_ops].
  set (y := vget (nth i Y []) j). nra.
Qed.

Lemma mk_mat_shape n (f : nat -> nat -> R) : mshape n (mk_mat n f).
Proof.
  unfold mshape, mk_mat. rewrite map_length, seq_length. split; [reflexivity|].
  apply Forall_map. rewrite Forall_forall. intros j _. rewrite map_length, seq_length. reflexivity.
Qed.

(** Both covariance updates (default and active) keep the matrix n x n and symmetric. *)
Theorem cov_symmetric cfg active st samples (fitness : list (xval R)) :
  msym (c_n cfg) (s_cov st) ->
  let st' := cma_update cfg active st samples fitness in
  mshape (c_n cfg) (s_cov st') /\ msym (c_n cfg) (s_cov st').
Proof.
  intro Hsym. cbv zeta. unfold cma_update. cbv zeta. cbn [s_cov].
  destruct active; (split; [apply mk_mat_shape|]); intros j k Hj Hk;
    rewrite !mget_mk_mat by assumption; rewrite (Hsym j k Hj Hk);
    match goal with |- context [rank_mu ?m ?w ?Y j k] => rewrite (rank_mu_sym m w Y j k) end.
  - match goal with |- context [rank_mu ?m ?w ?Y j k] => rewrite (rank_mu_sym m w Y j k) end.
    cbn [nadd nsub nmul R_ops]. ring.
  - cbn [nadd nsub nmul R_ops]. ring.
Qed.

Lemma nbool_01 b : nbool (F := R) b = 0 \/ nbool (F := R) b = 1.
Proof. destruct b; cbn; auto. Qed.

Lemma c1a_bounds c1 cc hs : 0 < c1 -> 0 < cc <= 1 -> (hs = 0 \/ hs = 1) ->
  0 <= c1 * (1 - (1 - hs) * cc * (2 / 1 - cc)) <= c1.
Proof.
  intros H1 H2 [-> | ->].
  - replace (c1 * (1 - (1 - 0) * cc * (2 / 1 - cc))) with (c1 * ((1 - cc) * (1 - cc))) by field.
    assert (0 <= (1 - cc) * (1 - cc) <= 1) by (split; nra).
    split; [apply Rmult_le_pos; lra|]. rewrite <- (Rmult_1_r c1) at 2. apply Rmult_le_compat_l; lra.
  - replace (c1 * (1 - (1 - 1) * cc * (2 / 1 - cc))) with c1 by field. lra.
Qed.

Lemma wpos_vget cfg : cfg_ok cfg -> forall i, (i < c_mu cfg)%nat -> 0 <= vget (c_w cfg) i.
Proof.
  intros Hok i Hi. destruct Hok as [_ Hwl Hwp _ _ _ _ _ _ _]. rewrite Forall_forall in Hwp.
  left. apply Hwp. unfold vget. apply nth_In. lia.
Qed.

(** Default (non-active) update: every variance (diagonal entry) stays positive. *)
Theorem cov_diag_positive_default cfg st samples (fitness : list (xval R)) :
  cfg_ok cfg -> forall j, (j < c_n cfg)%nat -> 0 < mget (s_cov st) j j ->
  0 < mget (s_cov (cma_update cfg false st samples fitness)) j j.
Proof.
  intros Hok j Hj Hpos. pose proof (wpos_vget cfg Hok) as Hw.
  destruct Hok as [_ _ _ _ Hc1 Hcmu Hsum Hcc _ _].
  unfold cma_update. cbv zeta. cbn [s_cov]. rewrite mget_mk_mat by assumption.
  match goal with |- context [nbool ?b] => set (hs := nbool b) end.
  match goal with |- context [rank_mu ?m ?w ?Y j j] =>
    pose proof (rank_mu_diag_nonneg m w Y j Hw) as Hrm; set (rm := rank_mu m w Y j j) in * end.
  cstR. cbn [nadd nsub nmul nunit R_ops].
  match goal with |- context [vget ?p j * vget ?p j] => set (pcj := vget p j) end.
  pose proof (c1a_bounds (c_c1 cfg) (c_cc cfg) hs Hc1 Hcc (nbool_01 _)) as Hc1a.
  set (c1a := c_c1 cfg * (1 - (1 - hs) * c_cc cfg * (2 / 1 - c_cc cfg))) in *.
  assert (0 < mget (s_cov st) j j * (1 - c1a - c_cmu cfg)) by (apply Rmult_lt_0_compat; lra).
  assert (0 <= pcj * pcj * c_c1 cfg) by (apply Rmult_le_pos; [nra|lra]).
  assert (0 <= rm * c_cmu cfg) by (apply Rmult_le_pos; lra).
  lra.
Qed.

(** Active update: the variance stays positive PROVIDED the negative rank-mu term of the mu
    worst candidates is bounded relative to the retained variance: sum_i w_i z_ij^2 <= K * C_jj
    with neg_cmu * K <= 1 - c1 - cmu. Without such a bound the update as written can drive a
    variance negative (the bound is a hypothesis, it is not established by the code). *)
Theorem cov_diag_positive_active_partial cfg st samples (fitness : list (xval R)) K :
  cfg_ok cfg -> forall j, (j < c_n cfg)%nat -> 0 < mget (s_cov st) j j ->
  rank_mu (c_mu cfg) (c_w cfg)
          (normalise (c_n cfg) (select samples (firstn (c_mu cfg) (rev (argsort fitness))))
                     (s_mean st) (sqrt (s_var st))) j j <= K * mget (s_cov st) j j ->
  c_negcmu cfg * K <= 1 - c_c1 cfg - c_cmu cfg ->
  0 < mget (s_cov (cma_update cfg true st samples fitness)) j j.
Proof.
  intros Hok j Hj Hpos Hneg HK. pose proof (wpos_vget cfg Hok) as Hw.
  destruct Hok as [_ _ _ _ Hc1 Hcmu Hsum Hcc Hncmu Halpha].
  unfold cma_update. cbv zeta. cbn [s_cov]. rewrite mget_mk_mat by assumption.
  cbn [nsqrt R_ops] in *.
  match goal with |- context [nbool ?b] => set (hs := nbool b) end.
  set (nrm := rank_mu (c_mu cfg) (c_w cfg)
          (normalise (c_n cfg) (select samples (firstn (c_mu cfg) (rev (argsort fitness))))
                     (s_mean st) (sqrt (s_var st))) j j) in *.
  match goal with |- context [nmul (rank_mu ?m ?w ?Y j j) (nadd _ _)] =>
    pose proof (rank_mu_diag_nonneg m w Y j Hw) as Hrm; set (rm := rank_mu m w Y j j) in * end.
  cstR. cbn [nadd nsub nmul nunit R_ops]. rewrite Halpha.
  match goal with |- context [vget ?p j * vget ?p j] => set (pcj := vget p j) end.
  pose proof (c1a_bounds (c_c1 cfg) (c_cc cfg) hs Hc1 Hcc (nbool_01 _)) as Hc1a.
  set (c1a := c_c1 cfg * (1 - (1 - hs) * c_cc cfg * (2 / 1 - c_cc cfg))) in *.
  set (C := mget (s_cov st) j j) in *. set (g := c_negcmu cfg) in *.
  assert (0 <= pcj * pcj * c_c1 cfg) by (apply Rmult_le_pos; [nra|lra]).
  assert (0 <= rm * (c_cmu cfg + g * (1 - 1 / 2))) by (apply Rmult_le_pos; nra).
  assert (nrm * g <= K * C * g) by (apply Rmult_le_compat_r; lra).
  assert (K * C * g <= (1 - c_c1 cfg - c_cmu cfg) * C) by nra.
  assert ((1 - c_c1 cfg - c_cmu cfg) * C < C * (1 - c1a - c_cmu cfg + g * (1 / 2))) by nra.
  lra.
Qed.

(* ================================================================== *)
(** * flat_params / set_params *)
Section FlatProofs.
  Context {A : Type}.
  Definition total (shapes : list shape) : nat := fold_right (fun s acc => (size s + acc)%nat) 0%nat shapes.
  Definition leaf_wf (l : leaf (A := A)) : Prop := length (snd l) = size (fst l).

  Lemma firstn_add (l : list A) a b : firstn (a + b) l = firstn a l ++ firstn b (skipn a l).
  Proof.
    revert l; induction a as [|a IH]; intro l; [reflexivity|].
    destruct l as [|x t]; [cbn; rewrite firstn_nil; reflexivity|]. cbn. f_equal. apply IH.
  Qed.
  Lemma skipn_add (l : list A) a b : skipn (a + b) l = skipn b (skipn a l).
  Proof.
    revert l; induction a as [|a IH]; intro l; [reflexivity|].
    destruct l as [|x t]; [cbn; rewrite skipn_nil; reflexivity|]. cbn. apply IH.
  Qed.

  Lemma flat_set_from shapes : forall off (params : list A),
    flat_params (set_params_from off shapes params) = firstn (total shapes) (skipn off params).
  Proof.
    induction shapes as [|s t IH]; intros off params; [reflexivity|].
    cbn [set_params_from total fold_right]. unfold flat_params in *. cbn [map snd concat].
    rewrite IH. fold (total t). rewrite firstn_add, skipn_add. reflexivity.
  Qed.

  (** Writing a flat vector of the right length into the leaves and reading it back
      (flat_params after set_params) is the identity, for every list of leaf shapes. *)
  Theorem flat_set_id shapes (params : list A) :
    length params = total shapes -> flat_params (set_params shapes params) = params.
  Proof.
    intro H. unfold set_params. rewrite flat_set_from. cbn [skipn]. rewrite <- H. apply firstn_all.
  Qed.

  Lemma set_flat_from (leaves : list leaf) : forall pre post,
    Forall leaf_wf leaves ->
    set_params_from (length pre) (map fst leaves) (pre ++ flat_params leaves ++ post) = leaves.
  Proof.
    induction leaves as [|[s d] t IH]; intros pre post Hwf; [reflexivity|].
    inversion Hwf as [|? ? Hl Ht]; subst. unfold leaf_wf in Hl. cbn [fst snd] in Hl.
    cbn [map fst set_params_from]. unfold flat_params in *. cbn [map snd concat].
    f_equal.
    - f_equal. rewrite skipn_app, skipn_all, Nat.sub_diag. cbn [skipn app].
      rewrite <- app_assoc. rewrite <- Hl. rewrite firstn_app, firstn_all, Nat.sub_diag. cbn [firstn].
      apply app_nil_r.
    - rewrite <- Hl, <- app_length.
      replace (pre ++ (d ++ concat (map snd t)) ++ post) with ((pre ++ d) ++ concat (map snd t) ++ post)
        by (rewrite <- !app_assoc; reflexivity).
      apply IH, Ht.
  Qed.

  (** Reading the leaves into a flat vector and writing it back restores every leaf
      (shape and contents), for every list of well-shaped leaves. *)
  Theorem set_flat_id (leaves : list leaf) :
    Forall leaf_wf leaves -> set_params (map fst leaves) (flat_params leaves) = leaves.
  Proof.
    intro H. unfold set_params. pose proof (set_flat_from leaves [] [] H) as E.
    cbn [length app] in E. rewrite app_nil_r in E. exact E.
  Qed.

  Lemma set_params_shapes shapes : forall off (params : list A),
    map fst (set_params_from off shapes params) = shapes.
  Proof. induction shapes as [|s t IH]; intros; cbn [set_params_from map fst]; [reflexivity|f_equal; apply IH]. Qed.
End FlatProofs.

(* ================================================================== *)
(** * Cross-entropy method *)
Lemma nmin_R a b : nmin (F := R) a b = Rmin a b.
Proof. unfold nmin; cbn. unfold Rmin, Rleb. destruct (Rle_dec a b); reflexivity. Qed.

(** One coordinate of cem_sample: for a mean inside the box, a non-negative variance and a
    truncated-normal draw |z| <= 2 the sample lies inside the box. *)
Lemma cem_coord_within z m v lb ub :
  lb <= m <= ub -> 0 <= v -> -2 <= z <= 2 ->
  lb <= z * sqrt (cem_constrained_var m v lb ub) + m <= ub.
Proof.
  intros [Hl Hu] Hv Hz. unfold cem_constrained_var. rewrite !nmin_R, !nsq_R. cstR.
  cbn [nsub nmul R_ops].
  set (a := 1 / 2 * (m - lb)). set (b := 1 / 2 * (ub - m)).
  assert (Ha : 0 <= a) by (unfold a; lra). assert (Hb : 0 <= b) by (unfold b; lra).
  set (c := Rmin (Rmin (a * a) (b * b)) v).
  assert (Hc0 : 0 <= c).
  { unfold c. apply Rmin_glb; [apply Rmin_glb; nra|exact Hv]. }
  assert (Hca : c <= a * a) by (unfold c; eapply Rle_trans; [apply Rmin_l|apply Rmin_l]).
  assert (Hcb : c <= b * b) by (unfold c; eapply Rle_trans; [apply Rmin_l|apply Rmin_r]).
  assert (Hsa : sqrt c <= a) by (rewrite <- (sqrt_square a Ha); apply sqrt_le_1; nra).
  assert (Hsb : sqrt c <= b) by (rewrite <- (sqrt_square b Hb); apply sqrt_le_1; nra).
  pose proof (sqrt_pos c) as Hs0. set (s := sqrt c) in *.
  unfold a, b in *. split; nra.
Qed.

(** cem_sample only proposes candidates within the bounds. *)
Theorem cem_sample_within (zs : list (list R)) mean var lb ub :
  (forall j, (j < length mean)%nat ->
     nth j lb 0 <= nth j mean 0 <= nth j ub 0 /\ 0 <= nth j var 0) ->
  (forall z, In z zs -> forall j, (j < length mean)%nat -> -2 <= nth j z 0 <= 2) ->
  forall x, In x (cem_sample zs mean var lb ub) ->
    length x = length mean /\
    forall j, (j < length mean)%nat -> nth j lb 0 <= nth j x 0 <= nth j ub 0.
Proof.
  intros Hbox Hz x Hx. unfold cem_sample in Hx. apply in_map_iff in Hx. destruct Hx as (z & <- & Hin).
  unfold cem_sample1. split; [apply mk_vec_length|]. intros j Hj. rewrite mk_vec_nth by exact Hj.
  destruct (Hbox j Hj) as [Hm Hv]. cbn [nadd nmul nsqrt R_ops]. unfold vget.
  apply cem_coord_within; [exact Hm|exact Hv|apply Hz; assumption].
Qed.

(** lax.top_k(fitness, k): k distinct indices in range, sorted by decreasing fitness with ties
    in index order, and no unselected candidate is strictly better than a selected one. *)
Theorem elites_are_top_k (fit : list (xval R)) k : (k <= length fit)%nat ->
  let t := top_k fit k in
  length t = k /\ NoDup t /\ Forall (fun i => (i < length fit)%nat) t /\
  StronglySorted (top_before fit) t /\
  (forall i j, In i t -> (j < length fit)%nat -> ~ In j t ->
     xtop_lt (fit_at fit j) (fit_at fit i) = false).
Proof.
  intro Hk. cbv zeta. unfold top_k. fold (top_all fit). destruct (top_all_spec fit) as [Hp Hs].
  destruct (firstn_of_sorted_perm (top_before fit) (length fit) (top_all fit) k Hp Hs Hk)
    as (H1 & H2 & H3 & H4 & H5).
  repeat split; try assumption. intros i j Hi Hj Hnj. apply top_before_not_lt. apply H5; assumption.
Qed.

(** ... which for comparable (non-NaN) fitness values reads: fitness_j <= fitness_i. *)
Corollary elites_dominate (fit : list (xval R)) k : (k <= length fit)%nat ->
  Forall (fun f => xisnan f = false) fit ->
  forall i j, In i (top_k fit k) -> (j < length fit)%nat -> ~ In j (top_k fit k) ->
    xleb (fit_at fit j) (fit_at fit i) = true.
Proof.
  intros Hk Hnn i j Hi Hj Hnj. destruct (elites_are_top_k fit k Hk) as (_ & _ & Hr & _ & Hbest).
  rewrite Forall_forall in Hnn, Hr.
  apply xtop_lt_false; [apply Hnn, nth_In; exact Hj|apply Hnn, nth_In, Hr, Hi|].
  apply Hbest; assumption.
Qed.

Lemma nmean_bounds (l : list R) lo hi : l <> [] -> Forall (fun x => lo <= x <= hi) l -> lo <= nmean l <= hi.
Proof.
  intros Hne H. unfold nmean. cbn [ndiv R_ops]. rewrite nofnat_R.
  assert (Hn : 0 < INR (length l)) by (apply lt_0_INR; destruct l; [congruence|cbn; lia]).
  assert (Hs : INR (length l) * lo <= nsum l <= INR (length l) * hi).
  { clear Hne Hn. induction H as [|x t Hx Ht IH]; [cbn [length INR]; rewrite nsum_nil; lra|].
    rewrite nsum_cons. cbn [length]. rewrite S_INR. lra. }
  split.
  - apply Rmult_le_reg_r with (INR (length l)); [exact Hn|]. unfold Rdiv. rewrite Rmult_assoc, Rinv_l by lra. lra.
  - apply Rmult_le_reg_r with (INR (length l)); [exact Hn|]. unfold Rdiv. rewrite Rmult_assoc, Rinv_l by lra. lra.
Qed.

(** cem_update: the new mean is alpha * mean + (1 - alpha) * (arithmetic mean of exactly the
    n_elite selected candidates) and stays inside the box. *)
Theorem cem_mean_within samples (fitness : list (xval R)) mean var n_elite alpha lb ub :
  (1 <= n_elite)%nat -> (n_elite <= length fitness)%nat -> length samples = length fitness ->
  0 <= alpha <= 1 ->
  let top := top_k fitness n_elite in
  let mean' := fst (cem_update samples fitness mean var n_elite alpha) in
  length mean' = length mean /\
  forall j, (j < length mean)%nat ->
    nth j mean' 0 = alpha * nth j mean 0
                    + (1 - alpha) * (nsum (map (fun i => nth j (nth i samples []) 0) top) / INR n_elite) /\
    ((forall x, In x samples -> nth j lb 0 <= nth j x 0 <= nth j ub 0) ->
     nth j lb 0 <= nth j mean 0 <= nth j ub 0 ->
     nth j lb 0 <= nth j mean' 0 <= nth j ub 0).
Proof.
  intros Hk1 Hk Hlen Ha. cbv zeta. unfold cem_update. cbv zeta. cbn [fst].
  split; [apply mk_vec_length|]. intros j Hj. rewrite mk_vec_nth by exact Hj.
  destruct (elites_are_top_k fitness n_elite Hk) as (Htl & _ & Hr & _ & _). cbv zeta in *.
  unfold cem_elites, select. rewrite map_map. unfold vget. cbn [nadd nsub nmul nunit nzero R_ops].
  set (col := map (fun i => nth j (nth i samples []) 0) (top_k fitness n_elite)).
  assert (Hcl : length col = n_elite) by (unfold col; rewrite map_length; exact Htl).
  split.
  - unfold nmean. rewrite Hcl, nofnat_R. reflexivity.
  - intros Hs Hm. set (lo := nth j lb 0) in *. set (hi := nth j ub 0) in *.
    assert (Hb : lo <= nmean col <= hi).
    { apply nmean_bounds; [destruct col; [cbn in Hcl; lia|discriminate]|].
      unfold col. apply Forall_map. rewrite Forall_forall in *. intros i Hi.
      apply Hs, nth_In. rewrite Hlen. apply Hr, Hi. }
    split; nra.
Qed.

(* ================================================================== *)
(** * Satisfiability / necessity witnesses *)
(** What [cfg_ok] says, spelled out. *)
Lemma cfg_ok_spelled cfg :
  cfg_ok cfg <->
  ((1 <= c_mu cfg)%nat /\ length (c_w cfg) = c_mu cfg /\ Forall (fun x => 0 < x) (c_w cfg) /\
   nsum (c_w cfg) = 1 /\ 0 < c_c1 cfg /\ 0 < c_cmu cfg /\ c_c1 cfg + c_cmu cfg < 1 /\
   0 < c_cc cfg <= 1 /\ 0 < c_negcmu cfg /\ c_alpha cfg = 1 / 2).
Proof.
  split.
  - intros [H1 H2 H3 H4 H5 H6 H7 H8 H9 H10]. repeat split; try assumption; apply H8.
  - intros (H1 & H2 & H3 & H4 & H5 & H6 & H7 & H8 & H9 & H10). constructor; assumption.
Qed.

(** The diagonal entry written by the active update, as a function of its ingredients. *)
Definition active_entry (C a1 pc2 c1 rm b nrm g : R) : R := C * a1 + pc2 * c1 + rm * b - nrm * g.

(** Necessity of the bound in [cov_diag_positive_active_partial]: with admissible rates
    (c1 = cmu = 1/4, neg_cmu = 1/8, alpha_old = 1/2), unit variance, and a worst candidate
    ten standard deviations out (negative term 100) the written entry is negative. *)
Example active_entry_can_be_negative :
  let c1 := 1 / 4 in let cmu := 1 / 4 in let g := 1 / 8 in let al := 1 / 2 in
  0 < c1 /\ 0 < cmu /\ c1 + cmu < 1 /\ 0 < g /\
  active_entry 1 (1 - c1 - cmu + g * al) 0 c1 0 (cmu + g * (1 - al)) 100 g < 0.
Proof. cbv zeta. unfold active_entry. repeat split; lra. Qed.

Lemma active_entry_is_the_update cfg st samples (fitness : list (xval R)) j : (j < c_n cfg)%nat ->
  exists hs pcj, (hs = 0 \/ hs = 1) /\
  mget (s_cov (cma_update cfg true st samples fitness)) j j =
  active_entry (mget (s_cov st) j j)
    (1 - c_c1 cfg * (1 - (1 - hs) * c_cc cfg * (2 - c_cc cfg)) - c_cmu cfg + c_negcmu cfg * c_alpha cfg)
    (pcj * pcj) (c_c1 cfg)
    (rank_mu (c_mu cfg) (c_w cfg)
       (normalise (c_n cfg) (select samples (firstn (c_mu cfg) (argsort fitness))) (s_mean st) (sqrt (s_var st))) j j)
    (c_cmu cfg + c_negcmu cfg * (1 - c_alpha cfg))
    (rank_mu (c_mu cfg) (c_w cfg)
       (normalise (c_n cfg) (select samples (firstn (c_mu cfg) (rev (argsort fitness)))) (s_mean st) (sqrt (s_var st))) j j)
    (c_negcmu cfg).
Proof.
  intro Hj. unfold cma_update. cbv zeta. cbn [s_cov]. rewrite mget_mk_mat by assumption.
  match goal with |- context [nbool ?b] => exists (nbool b) end.
  match goal with |- context [nmul (vget ?p j) (vget ?p j)] => exists (vget p j) end.
  split; [apply nbool_01|]. unfold active_entry. cstR. cbn [nadd nsub nmul nunit nsqrt R_ops].
  replace (2 / 1) with 2 by lra. reflexivity.
Qed.
