(** C04 — every enabled start of the subtrajectory buffer begins a window that is, up to
    and including its first terminated step, a contiguous run of real (non-synthetic),
    non-truncated rows of the chronological write history; all of them still live. *)
From Coq Require Import ZArith List Bool Arith Lia.
From RLV Require Import Model.Buffers Proofs.RingProofs.
Import ListNotations.

(* ---------------------------------------------------------------- *)
(** ** The append-only write history (ghost state) *)
Definition ends (x : srow) : bool := r_term x || r_trunc x.
(** A write is a stored row tagged real (true) or synthetic successor row (false). *)
Notation wrow := (srow * bool)%type.
Definition writes1 (x : srow) : list wrow :=
  if ends x then [(x, true); (extra_row x, false)] else [(x, true)].
Definition writes (rows : list srow) : list wrow := flat_map writes1 rows.

Definition ring_of (b : sb) : rb srow :=
  {| cap := s_cap b; slots := s_slots b; ins := s_ins b; len := s_len b |}.

Lemma sb_add_ring b x :
  ring_of (fst (sb_add b x)) = fold_left rb_add (map fst (writes1 x)) (ring_of b).
Proof.
  unfold sb_add, writes1, ends. destruct (r_term x || r_trunc x); reflexivity.
Qed.

Lemma sb_add_cap b x : s_cap (fst (sb_add b x)) = s_cap b /\ s_H (fst (sb_add b x)) = s_H b.
Proof. unfold sb_add. destruct (r_term x || r_trunc x); split; reflexivity. Qed.

(* ---------------------------------------------------------------- *)
(** ** What an enabled start guarantees *)
Definition realnt (W : list wrow) (c : nat) : Prop :=
  exists x, nth_error W c = Some (x, true) /\ r_term x = false /\ r_trunc x = false.
Definition GoodA (W : list wrow) (H c : nat) : Prop := forall j, j < H -> realnt W (c + j).
Definition GoodB (W : list wrow) (H c : nat) : Prop :=
  exists k x, k < H /\ (forall j, j < k -> realnt W (c + j)) /\
              nth_error W (c + k) = Some (x, true) /\ r_term x = true /\ r_trunc x = false /\
              c + k + 1 < length W.
Definition Good (W : list wrow) (H c : nat) : Prop := GoodA W H c \/ GoodB W H c.

Lemma realnt_app W W' c : realnt W c -> realnt (W ++ W') c.
Proof.
  intros (x & Hx & Ht). exists x. split; [|exact Ht].
  rewrite nth_error_app1; [exact Hx|]. apply nth_error_Some. congruence.
Qed.
Lemma good_app W W' H c : Good W H c -> Good (W ++ W') H c.
Proof.
  intros [HA|(k & x & Hk & Hj & Hx & Ht & Hu & Hl)]; [left|right].
  - intros j Hj. apply realnt_app, HA, Hj.
  - exists k, x. repeat split; auto.
    + intros j Hj'. apply realnt_app, Hj, Hj'.
    + rewrite nth_error_app1; [exact Hx|]. apply nth_error_Some. congruence.
    + rewrite app_length. lia.
Qed.

(* ---------------------------------------------------------------- *)
(** ** modular arithmetic of the mask indices *)
Lemma subm_spec n b N : 0 < N -> b < N -> b <= n -> subm (n mod N) b N = (n - b) mod N.
Proof.
  intros HN Hb Hn. unfold subm. rewrite (Nat.mod_small b N) by exact Hb.
  rewrite Nat.add_mod_idemp_l by lia.
  replace (n + (N - b)) with ((n - b) + 1 * N) by lia. apply Nat.mod_add. lia.
Qed.

Lemma past_idx_in ins N k s : In s (past_idx ins N k) <-> exists j, j < k /\ s = subm ins (S j) N.
Proof.
  induction k as [|k IH]; cbn [past_idx].
  - split; [intros []|intros (j & Hj & _); lia].
  - rewrite in_app_iff, IH. cbn [In]. split.
    + intros [(j & Hj & E)|[E|[]]]; [exists j; split; [lia|exact E]|exists k; split; [lia|symmetry; exact E]].
    + intros (j & Hj & E). destruct (Nat.eq_dec j k) as [->|Hne]; [right; left; symmetry; exact E|].
      left. exists j. split; [lia|exact E].
Qed.

Lemma fold_upd_const {A} (v : A) (l : list nat) : forall m s d,
  nth s (fold_left (fun m j => upd m j v) l m) d =
  if existsb (Nat.eqb s) l then (if Nat.ltb s (length m) then v else nth s m d) else nth s m d.
Proof.
  induction l as [|j l IH]; intros m s d; cbn [fold_left existsb]; [reflexivity|].
  rewrite IH, upd_length, nth_upd.
  destruct (Nat.eqb_spec s j) as [->|Hne]; cbn [orb].
  - rewrite Nat.eqb_refl. destruct (existsb (Nat.eqb j) l); destruct (Nat.ltb j (length m)); reflexivity.
  - destruct (Nat.eqb_spec j s); [congruence|]. reflexivity.
Qed.

Lemma fold_upd_const_length {A} (v : A) (l : list nat) : forall m,
  length (fold_left (fun m j => upd m j v) l m) = length m.
Proof. induction l as [|j l IH]; intro m; cbn; [reflexivity|]. rewrite IH, upd_length. reflexivity. Qed.

(* ---------------------------------------------------------------- *)
(** ** The invariant *)
Definition SInv (N H : nat) (b : sb) (W : list wrow) : Prop :=
  s_cap b = N /\ s_H b = H /\ length (s_mask b) = N /\
  RInv N (ring_of b) (map fst W) /\
  (s_ept b <= length W /\ forall j, j < s_ept b -> realnt W (length W - 1 - j)) /\
  (forall s, nth s (s_mask b) false = true ->
     exists c, c < length W /\ length W <= c + N /\ c mod N = s /\ Good W H c).

Lemma sinv_init N H : 1 <= N -> SInv N H (sb_init N H) [].
Proof.
  intro HN. unfold SInv, sb_init; cbn [s_cap s_H s_mask s_ept length]. rewrite repeat_length.
  split; [reflexivity|]. split; [reflexivity|]. split; [reflexivity|].
  split; [apply (rinv_init N HN)|]. split; [split; [lia|intros j Hj; lia]|].
  intros s Hs. exfalso. clear -Hs. revert s Hs. induction N; intros [|s] Hs; cbn in *; try discriminate; eauto.
Qed.

Lemma mask_true_lt (m : list bool) s : nth s m false = true -> s < length m.
Proof. intro Hs. destruct (Nat.lt_ge_cases s (length m)); [assumption|]. rewrite nth_overflow in Hs by assumption. discriminate. Qed.

Lemma sinv_add N H b W x : H < N -> 1 <= H -> SInv N H b W ->
  SInv N H (fst (sb_add b x)) (W ++ writes1 x).
Proof.
  intros HHN HH1 (Hcap & HHb & Hml & Hring & (Hept & Htrail) & Hmask).
  subst N H. set (N := s_cap b) in *. set (H := s_H b) in *.
  assert (Hcap : s_cap b = N) by reflexivity. assert (HHb : s_H b = H) by reflexivity.
  assert (HN : 1 <= N) by lia.
  pose proof (sb_add_ring b x) as Hr. pose proof (sb_add_cap b x) as [Hc' HH'].
  set (n := length W) in *.
  assert (Hins : s_ins b = n mod N).
  { destruct Hring as (_ & _ & Hi & _). cbn [ring_of ins] in Hi. rewrite map_length in Hi. exact Hi. }
  (* the ring part *)
  assert (Hring' : RInv N (ring_of (fst (sb_add b x))) (map fst (W ++ writes1 x))).
  { rewrite Hr, map_app. apply rinv_fold; assumption. }
  assert (Hnlt : n mod N < N) by (apply Nat.mod_upper_bound; lia).
  (* mask after the first write *)
  set (i0 := s_ins b) in *.
  set (mask1 := upd (s_mask b) i0 false).
  set (mask2 := if Nat.ltb H (s_ept b + 1) then upd mask1 (subm i0 H N) true else mask1).
  assert (Hm2len : length mask2 = N).
  { unfold mask2, mask1. destruct (Nat.ltb H (s_ept b + 1)); rewrite ?upd_length; exact Hml. }
  (* every enabled slot of mask2 is good w.r.t. W ++ [(x,true)] *)
  assert (Hmask2 : forall s, nth s mask2 false = true ->
            exists c, c < n + 1 /\ n + 1 <= c + N /\ c mod N = s /\ Good (W ++ [(x, true)]) H c).
  { intros s Hs. unfold mask2 in Hs.
    assert (Hold : nth s mask1 false = true ->
              exists c, c < n + 1 /\ n + 1 <= c + N /\ c mod N = s /\ Good (W ++ [(x, true)]) H c).
    { intro Hs1. unfold mask1 in Hs1. rewrite nth_upd in Hs1.
      destruct (Nat.eqb_spec i0 s) as [E|Hne].
      - rewrite Hml in Hs1. assert (Hlt : (i0 <? N) = true) by (apply Nat.ltb_lt; lia).
        rewrite Hlt in Hs1. discriminate.
      - destruct (Hmask s Hs1) as (c & Hc1 & Hc2 & Hc3 & Hg). exists c. repeat split; auto; try lia.
        + assert (c <> n - N \/ n < N) by (destruct (Nat.lt_ge_cases n N); [right; lia|left; intro E; subst c;
            apply Hne; rewrite <- Hc3, Hins;
            replace n with ((n - N) + 1 * N) at 1 by lia; rewrite Nat.mod_add by lia; reflexivity]).
          lia.
        + apply good_app, Hg. }
    destruct (Nat.ltb_spec H (s_ept b + 1)) as [Hen|Hnen]; [|apply Hold, Hs].
    rewrite nth_upd in Hs. destruct (Nat.eqb_spec (subm i0 H N) s) as [E|Hne]; [|apply Hold, Hs].
    assert (HHn : H <= n) by lia.
    exists (n - H). repeat split; try lia.
    - rewrite <- E, Hins. symmetry. apply subm_spec; lia.
    - left. intros j Hj. apply realnt_app.
      replace (n - H + j) with (n - 1 - (H - 1 - j)) by lia. apply Htrail. lia. }
  unfold SInv. rewrite Hc', HH'. 
  unfold sb_add in *. unfold writes1, ends in *.
  change (s_cap b) with N in Hr |- *. change (s_H b) with H in Hr |- *. change (s_ins b) with i0 in Hr |- *.
  fold mask1. fold mask2.
  destruct (r_term x || r_trunc x) eqn:Eend; cbn [fst s_cap s_H s_mask s_ept] in *.
  - (* episode ends: real row + synthetic successor row *)
    set (i1 := (i0 + 1) mod N).
    assert (Hi1 : i1 = (n + 1) mod N) by (unfold i1; rewrite Hins, Nat.add_mod_idemp_l by lia; reflexivity).
    set (k := Nat.min (s_ept b + 1) H).
    set (mask3 := upd mask2 i1 false).
    split; [reflexivity|]. split; [reflexivity|].
    split; [rewrite fold_upd_const_length; unfold mask3; rewrite upd_length; exact Hm2len|].
    split; [exact Hring'|]. split; [split; [lia|intros j Hj; lia]|].
    { intros s Hs. rewrite fold_upd_const in Hs. rewrite app_length. cbn [length].
      assert (Hm3len : length mask3 = N) by (unfold mask3; rewrite upd_length; exact Hm2len).
      destruct (existsb (Nat.eqb s) (past_idx i1 N k)) eqn:Ein.
      * (* s is one of the last min(ept,H) rows of the episode *)
        apply existsb_exists in Ein. destruct Ein as (s' & Hin & Es). apply Nat.eqb_eq in Es. subst s'.
        apply past_idx_in in Hin. destruct Hin as (j & Hj & Esj).
        rewrite Hm3len in Hs.
        destruct (Nat.ltb_spec s N) as [HsN|HsN].
        2:{ exfalso. subst s. unfold subm in HsN. pose proof (Nat.mod_upper_bound (i1 + (N - S j mod N)) N). lia. }
        assert (Htr : r_trunc x = false) by (destruct (r_trunc x); [discriminate|reflexivity]).
        assert (Hte : r_term x = true) by (rewrite Htr, orb_false_r in Eend; exact Eend).
        assert (Hjk : j < s_ept b + 1 /\ j < H) by (unfold k in Hj; lia).
        assert (Hsj : s = (n - j) mod N).
        { rewrite Esj, Hi1. rewrite subm_spec by lia. f_equal. lia. }
        exists (n - j). repeat split; try lia.
        right. exists j, x. repeat split; try lia; try assumption.
           ++ intros i Hi. apply realnt_app. replace (n - j + i) with (n - 1 - (j - 1 - i)) by lia. apply Htrail. lia.
           ++ replace (n - j + j) with n by lia. rewrite nth_error_app2 by (fold n; lia).
              fold n. rewrite Nat.sub_diag. reflexivity.
           ++ rewrite ?app_length; cbn [length]; fold n; lia.
      * (* untouched by the tail assignment *)
        unfold mask3 in Hs. rewrite nth_upd in Hs.
        destruct (Nat.eqb_spec i1 s) as [E1|Hne1].
        { rewrite Hm2len in Hs. assert (Hlt : (i1 <? N) = true).
          { apply Nat.ltb_lt. unfold i1. apply Nat.mod_upper_bound. lia. }
          rewrite Hlt in Hs. discriminate. }
        destruct (Hmask2 s Hs) as (c & Hc1 & Hc2 & Hc3 & Hg).
        exists c. repeat split; try lia.
        -- assert (c + N <> n + 1).
           { intro E. apply Hne1. rewrite Hi1, <- Hc3. rewrite <- E.
             replace (c + N) with (c + 1 * N) by lia. rewrite Nat.mod_add by lia. reflexivity. }
           lia.
        -- replace (W ++ [(x, true); (extra_row x, false)]) with ((W ++ [(x, true)]) ++ [(extra_row x, false)])
             by (rewrite <- app_assoc; reflexivity).
           apply good_app, Hg. }
  - (* ordinary step *)
    assert (Htr : r_trunc x = false) by (destruct (r_term x); [discriminate|exact Eend]).
    assert (Hte : r_term x = false) by (destruct (r_term x); [discriminate|reflexivity]).
    split; [reflexivity|]. split; [reflexivity|]. split; [exact Hm2len|].
    split; [exact Hring'|]. split; [split|].
    + rewrite app_length; cbn [length]. lia.
    + intros j Hj. rewrite app_length. cbn [length]. fold n.
      destruct j as [|j].
      * exists x. replace (n + 1 - 1 - 0) with n by lia.
        rewrite nth_error_app2 by (fold n; lia). fold n. rewrite Nat.sub_diag. repeat split; auto.
      * apply realnt_app. replace (n + 1 - 1 - S j) with (n - 1 - j) by lia. apply Htrail. lia.
    + intros s Hs. rewrite app_length; cbn [length]. fold n. apply Hmask2, Hs.
Qed.

(* ---------------------------------------------------------------- *)
(** ** All histories *)
Lemma sinv_fold N H rows : forall b W, H < N -> 1 <= H -> SInv N H b W ->
  SInv N H (fold_left (fun b x => fst (sb_add b x)) rows b) (W ++ writes rows).
Proof.
  induction rows as [|x rows IH]; intros b W HHN HH1 HI; cbn [fold_left writes flat_map].
  - rewrite app_nil_r; exact HI.
  - rewrite app_assoc. apply IH; auto. apply sinv_add; assumption.
Qed.

Theorem subtraj_inv N H rows : H < N -> 1 <= H ->
  SInv N H (sb_run N H rows) (writes rows).
Proof.
  intros HHN HH1. unfold sb_run. apply (sinv_fold N H rows (sb_init N H) [] HHN HH1).
  apply sinv_init. lia.
Qed.

(** The window returned for an enabled start: there is an absolute write position c
    (congruent to the start slot, still live) and a cut k < h such that rows 0..k of the
    window are exactly the consecutive writes W[c], ..., W[c+k]; all of them are real
    transitions (no synthetic row), none is truncated, none before k is terminated, and
    the cut is either the first terminated step or the end of the window. *)
Theorem window_valid N H rows s h : H < N -> 1 <= H -> 1 <= h <= H ->
  let b := sb_run N H rows in let W := writes rows in
  nth s (s_mask b) false = true ->
  exists c k, c mod N = s /\ c + k < length W /\ length W <= c + N /\ k < h /\
    (forall j, j < k -> realnt W (c + j)) /\
    (exists x, nth_error W (c + k) = Some (x, true) /\ r_trunc x = false /\
               (r_term x = true \/ (r_term x = false /\ k = h - 1))) /\
    (forall j, j <= k -> exists x t, nth_error W (c + j) = Some (x, t) /\
                                     nth j (sb_window b s h) None = Some x).
Proof.
  intros HHN HH1 Hh b W Hs.
  destruct (subtraj_inv N H rows HHN HH1) as (Hcap & HHb & Hml & Hring & _ & Hmask).
  fold b in Hcap, HHb, Hml, Hring, Hmask. fold W in Hring, Hmask.
  destruct (Hmask s Hs) as (c & Hc1 & Hc2 & Hc3 & Hg).
  destruct Hring as (_ & Hsl & _ & Hlen & Hslot & _). cbn [ring_of cap slots ins len] in *.
  rewrite map_length in *.
  (* choose the cut *)
  assert (Hcut : exists k, k < h /\ c + k < length W /\ (forall j, j < k -> realnt W (c + j)) /\
            exists x, nth_error W (c + k) = Some (x, true) /\ r_trunc x = false /\
                      (r_term x = true \/ (r_term x = false /\ k = h - 1))).
  { destruct Hg as [HA|(k & x & Hk & Hj & Hx & Ht & Hu & Hl)].
    - exists (h - 1). destruct (HA (h - 1)) as (x & Hx & Ht & Hu); [lia|].
      repeat split; try lia.
      + apply (proj1 (nth_error_Some W (c + (h - 1)))). congruence.
      + intros j Hj. apply HA. lia.
      + exists x. repeat split; auto.
    - destruct (Nat.lt_ge_cases k h) as [Hkh|Hkh].
      + exists k. repeat split; auto; try lia. exists x. repeat split; auto.
      + exists (h - 1). destruct (Hj (h - 1)) as (y & Hy & Hty & Huy); [lia|].
        repeat split; try lia.
        * intros j Hj'. apply Hj. lia.
        * exists y. repeat split; auto. }
  destruct Hcut as (k & Hkh & Hck & Hpre & Hlast).
  exists c, k. repeat split; auto.
  intros j Hj.
  destruct (nth_error W (c + j)) as [[y t]|] eqn:Ey; [|apply nth_error_None in Ey; lia].
  exists y, t. split; [reflexivity|].
  unfold sb_window, window_idx.
  rewrite (nth_map_in _ _ j 0 None) by (rewrite map_length, seq_length; lia).
  rewrite (nth_map_in _ _ j 0 0) by (rewrite seq_length; lia).
  rewrite seq_nth by lia. cbn [Nat.add].
  assert (Hidx : (s + j) mod s_len b = (c + j) mod N).
  { destruct (Nat.le_gt_cases N (length W)) as [Hfull|Hpart].
    - assert (E : s_len b = N) by lia. rewrite E. rewrite <- Hc3. rewrite Nat.add_mod_idemp_l by lia. reflexivity.
    - assert (E : s_len b = length W) by lia. rewrite E.
      assert (c = s) by (rewrite <- Hc3; symmetry; apply Nat.mod_small; lia). subst c.
      rewrite !Nat.mod_small by lia. reflexivity. }
  rewrite Hidx.
  assert (Hy' : nth_error (map fst W) (c + j) = Some y) by (rewrite nth_error_map, Ey; reflexivity).
  apply (Hslot _ _ Hy'). lia.
Qed.

(** Every index a window reads lies in the filled region and was written. *)
Theorem window_reads_written N H rows s h j : H < N -> 1 <= H ->
  let b := sb_run N H rows in
  nth s (s_mask b) false = true -> j < h ->
  (s + j) mod s_len b < s_len b /\ exists x, nth ((s + j) mod s_len b) (s_slots b) None = Some x.
Proof.
  intros HHN HH1 b Hs Hj.
  destruct (subtraj_inv N H rows HHN HH1) as (Hcap & HHb & Hml & Hring & _ & Hmask). fold b in Hring, Hmask.
  destruct (Hmask s Hs) as (c & Hc1 & _).
  assert (Hpos : 0 < s_len b).
  { destruct Hring as (_ & _ & _ & Hlen & _). cbn [ring_of len] in Hlen. rewrite map_length in Hlen. lia. }
  assert (Hlt : (s + j) mod s_len b < s_len b) by (apply Nat.mod_upper_bound; lia).
  split; [exact Hlt|].
  destruct (rinv_slot_sound N (ring_of b) (map fst (writes rows)) ((s + j) mod s_len b)) as (x & Hx & _);
    [lia|exact Hring|exact Hlt|]. exists x. exact Hx.
Qed.

(** The reduced (no-intermediate) view is the first row's observation and action, the
    last row's successor observation and the per-step rewards and flags of the same window. *)
Theorem reduced_view_spec b s h :
  let w := sb_window b s h in let v := sb_reduced b s h in
  v_obs v = option_map r_obs (nth 0 w None) /\ v_act v = option_map r_act (nth 0 w None) /\
  v_nobs v = option_map r_nobs (nth (h - 1) w None) /\
  v_rew v = map (option_map r_rew) w /\ v_term v = map (option_map r_term) w /\
  v_trunc v = map (option_map r_trunc) w.
Proof. cbn. repeat split; reflexivity. Qed.

(** Non-vacuity: a concrete history with wrap-around, a short terminated episode, a
    truncated episode and enabled starts of both kinds. *)
Definition ex_row (o : Z) (te tr : bool) : srow :=
  {| r_obs := o; r_act := o; r_rew := o; r_nobs := (o + 1)%Z; r_term := te; r_trunc := tr |}.
Example subtraj_example :
  let rows := [ex_row 0 false false; ex_row 1 false false; ex_row 2 true false;
               ex_row 10 false false; ex_row 11 false true;
               ex_row 20 false false; ex_row 21 false false; ex_row 22 false false] in
  let b := sb_run 6 2 rows in
  s_mask b = [false; true; false; false; false; false] /\ s_len b = 6 /\ length (writes rows) = 10.
Proof. vm_compute. repeat split; reflexivity. Qed.
