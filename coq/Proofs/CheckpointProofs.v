(** C15 — deferred training releases exactly the collected steps; checkpoints only improve. *)
From Coq Require Import ZArith QArith List Bool Lia Lqa.
From RLV Require Import Model.Checkpointing.
Import ListNotations.
Local Close Scope Q_scope.
Local Open Scope Z_scope.

Definition sumz (l : list Z) : Z := fold_right Z.add 0 l.
Definition minret_of (rs : list Q) : Q := fold_left qmin rs big.

(** Ghost window: the (length, return) pairs of the episodes since the last release. *)
Definition WInv (s : cstate) (win : list (Z * Q)) : Prop :=
  c_eps s = Z.of_nat (length win) /\ c_ts s = sumz (map fst win) /\
  c_minret s = minret_of (map snd win) /\ Forall (fun lr => 0 < fst lr) win.

Lemma winv_init : WInv cstate_init [].
Proof. unfold WInv; cbn. repeat split; auto. Qed.

Lemma sumz_app a b : sumz (a ++ b) = sumz a + sumz b.
Proof. unfold sumz. induction a as [|x a IH]; cbn [app fold_right]; [reflexivity|]. rewrite IH. lia. Qed.

Lemma sumz_pos (win : list (Z * Q)) : Forall (fun lr => 0 < fst lr) win -> 0 <= sumz (map fst win).
Proof. induction 1 as [|x l Hx Hl IH]; cbn [map sumz fold_right]; [lia|]. unfold sumz in *. lia. Qed.

Lemma qmin_le_l a b : (qmin a b <= a)%Q.
Proof. unfold qmin. destruct (Qlt_le_dec b a); lra. Qed.
Lemma qmin_le_r a b : (qmin a b <= b)%Q.
Proof. unfold qmin. destruct (Qlt_le_dec b a); lra. Qed.

Lemma minret_of_le rs : forall d, (fold_left qmin rs d <= d)%Q /\ Forall (fun r => fold_left qmin rs d <= r)%Q rs.
Proof.
  induction rs as [|r rs IH]; intro d; cbn [fold_left]; [split; [lra|constructor]|].
  destruct (IH (qmin d r)) as [H1 H2]. pose proof (qmin_le_l d r). pose proof (qmin_le_r d r).
  split; [lra|constructor; [lra|exact H2]].
Qed.

(** One call of the assessment function. *)
Lemma assess_step k s win steps ret epoch :
  WInv s win -> 0 < steps ->
  let '(s', u, tr) := assess k s steps ret epoch in
  let win' := win ++ [(steps, ret)] in
  (* either nothing is released and the window grows ... *)
  ((tr = 0 /\ u = false /\ WInv s' win' /\ c_maxeps s' = c_maxeps s /\
    (c_best s <= minret_of (map snd win'))%Q /\ Z.of_nat (length win') <> c_maxeps s /\ c_best s' = c_best s)
   \/
  (* ... or exactly the collected steps are released and every counter is reset *)
   (tr = sumz (map fst win') /\ 0 < tr /\ WInv s' [] /\ c_eps s' = 0 /\ c_ts s' = 0 /\ c_minret s' = big /\
    (u = true <-> (Z.of_nat (length win') = c_maxeps s /\ (c_best s <= minret_of (map snd win'))%Q)) /\
    (u = false <-> (minret_of (map snd win') < c_best s)%Q) /\
    let switch := (epoch <? k_threshold k) && (k_threshold k <=? epoch + tr) in
    c_maxeps s' = (if switch then k_maxeps k else c_maxeps s) /\
    c_best s' = (if switch then ((if u then minret_of (map snd win') else c_best s) * k_weight k)%Q
                 else (if u then minret_of (map snd win') else c_best s)))).
Proof.
  intros (He & Ht & Hm & Hpos) Hsteps. unfold assess.
  set (win' := win ++ [(steps, ret)]).
  assert (Hmr : qmin (c_minret s) ret = minret_of (map snd win')).
  { unfold win', minret_of. rewrite map_app, fold_left_app. cbn. rewrite Hm. reflexivity. }
  assert (Hts : c_ts s + steps = sumz (map fst win')).
  { unfold win'. rewrite map_app, sumz_app, Ht. cbn. lia. }
  assert (Heps : c_eps s + 1 = Z.of_nat (length win')).
  { unfold win'. rewrite app_length. cbn. lia. }
  assert (Htspos : 0 < c_ts s + steps) by (pose proof (sumz_pos win Hpos); lia).
  assert (Hpos' : Forall (fun lr => 0 < fst lr) win').
  { unfold win'. apply Forall_app. split; [exact Hpos|constructor; [cbn; lia|constructor]]. }
  rewrite Hmr, Hts, Heps in *.
  set (mr := minret_of (map snd win')) in *. set (ts := sumz (map fst win')) in *.
  destruct (Qlt_le_dec mr (c_best s)) as [Hb|Hb].
  - (* below the best minimum: cut short *)
    assert (E : (0 <? ts) = true) by (apply Z.ltb_lt; lia). rewrite E. cbn [negb andb].
    right. repeat split; auto; try lia; try discriminate; try (intros [_ H]; lra); try (intro; lra).
  - destruct (Z.eqb_spec (Z.of_nat (length win')) (c_maxeps s)) as [Ef|Ef].
    + assert (E : (0 <? ts) = true) by (apply Z.ltb_lt; lia). rewrite E. cbn [negb andb].
      right. repeat split; auto; try lia; try discriminate; try (intro; lra).
    + cbn [negb andb]. assert (E : (0 <? 0) = false) by reflexivity. rewrite E.
      left. repeat split; auto.
Qed.

(* ------------------------------------------------------------------ *)
(** ** Whole histories *)
(** Ghost run: for every call, the assessment window including the episode just finished,
    the state before the call and the epoch before the call. *)
Fixpoint td7_ghost (k : cfg) (s : cstate) (epoch : Z) (win : list (Z * Q)) (hist : list (Z * Q))
  : list (list (Z * Q) * cstate * Z) :=
  match hist with
  | [] => []
  | (steps, ret) :: t =>
      let '(s', u, tr) := assess k s steps ret epoch in
      let win' := win ++ [(steps, ret)] in
      (win', s, epoch) :: td7_ghost k s' (epoch + tr) (if 0 <? tr then [] else win') t
  end.

Definition call_spec (k : cfg) (out : bool * Z) (g : list (Z * Q) * cstate * Z) : Prop :=
  let '(u, tr) := out in let '(win', s, epoch) := g in
  (* released = 0, or exactly the steps of the window *)
  (tr = 0 \/ tr = sumz (map fst win')) /\
  (* checkpoint only on a complete window whose every return is >= the best minimum *)
  (u = true -> tr = sumz (map fst win') /\ Z.of_nat (length win') = c_maxeps s /\
               Forall (fun r => c_best s <= r)%Q (map snd win')) /\
  (* cut short (release without checkpoint) exactly when the window minimum is below *)
  ((0 < tr /\ u = false) <-> (minret_of (map snd win') < c_best s)%Q) /\
  (* nothing released: window incomplete and not below *)
  (tr = 0 -> Z.of_nat (length win') <> c_maxeps s /\ (c_best s <= minret_of (map snd win'))%Q).

Theorem td7_run_spec k hist : forall s epoch win,
  WInv s win -> Forall (fun lr => 0 < fst lr) hist ->
  let '(outs, sf, ef) := td7_run k s epoch hist in
  Forall2 (call_spec k) outs (td7_ghost k s epoch win hist) /\
  sumz (map snd outs) + c_ts sf = c_ts s + sumz (map fst hist) /\
  ef = epoch + sumz (map snd outs).
Proof.
  induction hist as [|[steps ret] t IH]; intros s epoch win HI Hpos; cbn [td7_run td7_ghost].
  - repeat split; [constructor|cbn; lia|cbn; lia].
  - inversion Hpos as [|? ? Hs Ht]; subst. cbn [fst] in Hs.
    pose proof (assess_step k s win steps ret epoch HI Hs) as Hstep.
    destruct (assess k s steps ret epoch) as [[s' u] tr].
    set (win' := win ++ [(steps, ret)]) in *. cbn zeta in Hstep.
    assert (Hnext : WInv s' (if 0 <? tr then [] else win')).
    { destruct Hstep as [(E & _ & HW & _)|(_ & Hp & HW & _)].
      - subst tr. cbn. exact HW.
      - assert (E : (0 <? tr) = true) by (apply Z.ltb_lt; lia). rewrite E. exact HW. }
    specialize (IH s' (epoch + tr) _ Hnext Ht).
    destruct (td7_run k s' (epoch + tr) t) as [[outs sf] ef].
    destruct IH as (IH1 & IH2 & IH3).
    split; [|split].
    + constructor; [|exact IH1]. unfold call_spec.
      destruct Hstep as [(E & Eu & HW & Hmax & Hb & Hne & _)|(E & Hp & HW & _ & _ & _ & Hu & Hnu & _)].
      * subst tr u.
        split; [left; reflexivity|]. split; [discriminate|].
        split; [split; [intros [H0 _]; lia|intro Hlt; exfalso; apply (Qlt_not_le _ _ Hlt Hb)]|].
        intros _. split; assumption.
      * split; [right; exact E|]. split.
        { intro Eu. apply Hu in Eu. destruct Eu as [Hl Hb]. split; [exact E|]. split; [exact Hl|].
          destruct (minret_of_le (map snd win') big) as [_ Hall]. fold (minret_of (map snd win')) in Hall.
          eapply Forall_impl; [|exact Hall]. cbn. intros r Hr. lra. }
        split; [split; [intros [_ Eu]; apply Hnu, Eu|intro Hlt; split; [exact Hp|apply Hnu, Hlt]]|].
        intro E0. lia.
    + cbn [map snd sumz fold_right].
      destruct Hstep as [(E & _ & HW & _)|(E & Hp & HW & _ & Hts & _)].
      * subst tr. destruct HW as (_ & Hts & _). unfold win' in Hts. rewrite map_app, sumz_app in Hts. cbn in Hts.
        destruct HI as (_ & Ht0 & _). unfold sumz in *. cbn [map fst fold_right]. lia.
      * destruct HI as (_ & Ht0 & _). unfold win' in E. rewrite map_app, sumz_app in E. cbn in E.
        unfold sumz in *. cbn [map fst fold_right]. lia.
    + cbn [map snd sumz fold_right]. unfold sumz in *. lia.
Qed.

(** Conservation at every prefix: released training iterations plus the steps still
    waiting in the open window equal the environment steps collected so far. *)
Corollary conservation k hist :
  Forall (fun lr => 0 < fst lr) hist ->
  let '(outs, sf, ef) := td7_run k cstate_init 0 hist in
  sumz (map snd outs) + c_ts sf = sumz (map fst hist) /\ ef = sumz (map snd outs).
Proof.
  intro Hpos. pose proof (td7_run_spec k hist cstate_init 0 [] winv_init Hpos) as H.
  destruct (td7_run k cstate_init 0 hist) as [[outs sf] ef]. destruct H as (_ & H2 & H3). cbn in H2. lia.
Qed.

(** A release resets all three window counters. *)
Theorem release_resets k s steps ret epoch :
  let '(s', u, tr) := assess k s steps ret epoch in
  0 < tr -> c_eps s' = 0 /\ c_ts s' = 0 /\ c_minret s' = big.
Proof.
  unfold assess.
  destruct (Qlt_le_dec _ _); destruct (Z.eqb _ _); cbn [negb andb];
    match goal with |- context [0 <? ?t] => destruct (Z.ltb_spec 0 t) end; cbn; intros; try lia; auto.
Qed.

(** The switch to the long assessment window: the window size changes only in a call that
    releases steps while the epoch counter crosses the threshold, and since the epoch
    counter advances by the released steps this happens at most once. *)
Definition switches_at (k : cfg) (s : cstate) (steps : Z) (ret : Q) (epoch : Z) : bool :=
  let '(_, _, tr) := assess k s steps ret epoch in
  (0 <? tr) && (epoch <? k_threshold k) && (k_threshold k <=? epoch + tr).

Fixpoint switch_count (k : cfg) (s : cstate) (epoch : Z) (hist : list (Z * Q)) : nat :=
  match hist with
  | [] => 0%nat
  | (steps, ret) :: t =>
      let '(s', _, tr) := assess k s steps ret epoch in
      ((if switches_at k s steps ret epoch then 1 else 0) + switch_count k s' (epoch + tr) t)%nat
  end.

Lemma assess_maxeps k s steps ret epoch :
  0 <= c_ts s -> 0 < steps ->
  let '(s', u, tr) := assess k s steps ret epoch in
  0 <= tr /\ 0 <= c_ts s' /\
  c_maxeps s' = (if switches_at k s steps ret epoch then k_maxeps k else c_maxeps s) /\
  (tr = 0 \/ tr = c_ts s + steps).
Proof.
  intros Hts Hs. unfold switches_at. unfold assess.
  destruct (Qlt_le_dec _ _); destruct (Z.eqb _ _); cbn [negb andb];
    match goal with |- context [0 <? ?t] => destruct (Z.ltb_spec 0 t) end; cbn [c_ts c_maxeps andb];
    repeat split; try lia;
    try (destruct (epoch <? k_threshold k); destruct (k_threshold k <=? epoch + (c_ts s + steps)); reflexivity);
    try (assert (E0 : (0 <? c_ts s + steps) = true) by (apply Z.ltb_lt; lia); rewrite E0; reflexivity).
Qed.

Lemma no_switch_after k hist : forall s epoch,
  k_threshold k <= epoch -> 0 <= c_ts s -> Forall (fun lr => 0 < fst lr) hist ->
  switch_count k s epoch hist = 0%nat.
Proof.
  induction hist as [|[steps ret] t IH]; intros s epoch He Hts Hpos; cbn [switch_count]; [reflexivity|].
  inversion Hpos as [|? ? Hs Ht]; subst. cbn [fst] in Hs.
  pose proof (assess_maxeps k s steps ret epoch Hts Hs) as Ha. unfold switches_at in *.
  destruct (assess k s steps ret epoch) as [[s' u] tr]. destruct Ha as (Htr & Hts' & _ & _).
  assert (E : (epoch <? k_threshold k) = false) by (apply Z.ltb_ge; lia).
  rewrite E, andb_false_r. cbn [andb Nat.add]. apply IH; auto; lia.
Qed.

Theorem switch_once k hist : forall s epoch,
  0 <= c_ts s -> Forall (fun lr => 0 < fst lr) hist ->
  (switch_count k s epoch hist <= 1)%nat.
Proof.
  induction hist as [|[steps ret] t IH]; intros s epoch Hts Hpos; cbn [switch_count]; [lia|].
  inversion Hpos as [|? ? Hs Ht]; subst. cbn [fst] in Hs.
  pose proof (assess_maxeps k s steps ret epoch Hts Hs) as Ha.
  pose proof (no_switch_after k t) as Hno. unfold switches_at in *.
  destruct (assess k s steps ret epoch) as [[s' u] tr]. destruct Ha as (Htr & Hts' & _ & _).
  destruct ((0 <? tr) && (epoch <? k_threshold k) && (k_threshold k <=? epoch + tr)) eqn:E.
  - apply andb_prop in E. destruct E as [_ E]. apply Z.leb_le in E.
    rewrite (Hno s' (epoch + tr)) by (auto; lia). lia.
  - cbn [Nat.add]. apply IH; auto.
Qed.

(** Non-vacuity: a history with a cut-short window, a checkpoint and the switch. *)
Example td7_example :
  let k := {| k_weight := (1#2)%Q; k_maxeps := 2; k_threshold := 4 |} in
  let hist := [(2, 3%Q); (3, 0%Q); (5, 3%Q); (1, 3%Q); (2, (-2)%Q)] in
  fst (fst (td7_run k cstate_init 0 hist)) = [(true, 2); (false, 3); (false, 0); (true, 6); (false, 2)] /\
  switch_count k cstate_init 0 hist = 1%nat.
Proof. vm_compute. split; reflexivity. Qed.
