(** C08 — priority bookkeeping: new transitions get the maximum priority, updates
    change exactly the last sampled batch, max_priority dominates, reset is exact. *)
From Coq Require Import ZArith QArith List Bool Arith Lia Lqa.
From RLV Require Import Model.Buffers Model.BufferRun Proofs.RingProofs.
Import ListNotations.
Local Close Scope Q_scope.
Local Open Scope nat_scope.

(* ---- qmax ---- *)
Lemma qmax_ge_l a b : (a <= qmax a b)%Q.
Proof. unfold qmax. destruct (Qlt_le_dec a b); lra. Qed.
Lemma qmax_ge_r a b : (b <= qmax a b)%Q.
Proof. unfold qmax. destruct (Qlt_le_dec a b); lra. Qed.
Lemma qmax_cases a b : qmax a b = a \/ qmax a b = b.
Proof. unfold qmax. destruct (Qlt_le_dec a b); auto. Qed.

Lemma qmax_list_ge l : forall d, (d <= qmax_list l d)%Q /\ Forall (fun x => x <= qmax_list l d)%Q l.
Proof.
  unfold qmax_list. induction l as [|x t IH]; intro d; cbn [fold_left].
  - split; [lra|constructor].
  - destruct (IH (qmax d x)) as [H1 H2]. split.
    + pose proof (qmax_ge_l d x). lra.
    + constructor; [pose proof (qmax_ge_r d x); lra|exact H2].
Qed.
Lemma qmax_list_in l : forall d, In (qmax_list l d) (d :: l).
Proof.
  unfold qmax_list. induction l as [|x t IH]; intro d; cbn [fold_left].
  - left; reflexivity.
  - destruct (IH (qmax d x)) as [H|H].
    + destruct (qmax_cases d x) as [E|E]; [left|right; left]; congruence.
    + right; right; exact H.
Qed.

(* ---- folds of upd ---- *)
Fixpoint last_assoc (j : nat) (l : list (nat * Q)) : option Q :=
  match l with
  | [] => None
  | (i, v) :: t => match last_assoc j t with
                   | Some w => Some w
                   | None => if Nat.eqb i j then Some v else None
                   end
  end.

Lemma fold_upd_length {V} (l : list (nat * V)) : forall pr,
  length (fold_left (fun pr iv => upd pr (fst iv) (snd iv)) l pr) = length pr.
Proof. induction l as [|[i v] t IH]; intro pr; cbn; [reflexivity|]. rewrite IH, upd_length. reflexivity. Qed.

Lemma fold_upd_idx_length {V} (s : list nat) (v : V) : forall pr,
  length (fold_left (fun pr i => upd pr i v) s pr) = length pr.
Proof. induction s as [|i t IH]; intro pr; cbn; [reflexivity|]. rewrite IH, upd_length. reflexivity. Qed.

Lemma fold_upd_nth (l : list (nat * Q)) : forall pr j,
  Forall (fun iv => fst iv < length pr) l ->
  nth j (fold_left (fun pr iv => upd pr (fst iv) (snd iv)) l pr) 0%Q =
  match last_assoc j l with Some v => v | None => nth j pr 0%Q end.
Proof.
  induction l as [|[i v] t IH]; intros pr j Hl; cbn [fold_left last_assoc fst snd]; [reflexivity|].
  inversion Hl as [|? ? Hi Ht]; subst. cbn [fst] in Hi.
  rewrite IH by (rewrite upd_length; exact Ht).
  destruct (last_assoc j t); [reflexivity|].
  rewrite nth_upd. destruct (Nat.eqb i j); [|reflexivity].
  destruct (Nat.ltb_spec i (length pr)); [reflexivity|lia].
Qed.

(** update_priority sets exactly the transitions of the last sampled batch to the
    supplied values (last write wins on repeated indices); everything else is unchanged. *)
Theorem update_exact p ps j :
  Forall (fun i => i < length (prio p)) (sampled p) ->
  nth j (prio (pb_update p ps)) 0%Q =
  match last_assoc j (combine (sampled p) ps) with
  | Some v => v
  | None => nth j (prio p) 0%Q
  end.
Proof.
  intro H. unfold pb_update; cbn [prio]. apply fold_upd_nth.
  revert ps; induction H as [|i l Hi Hl IH]; intros [|v ps]; cbn; constructor; auto.
Qed.

Lemma last_assoc_none j l : ~ In j (map fst l) -> last_assoc j l = None.
Proof.
  induction l as [|[i v] t IH]; intro H; cbn; [reflexivity|].
  rewrite IH by (intro; apply H; right; assumption).
  destruct (Nat.eqb_spec i j); [exfalso; apply H; left; assumption|reflexivity].
Qed.

Corollary update_frame p ps j :
  Forall (fun i => i < length (prio p)) (sampled p) ->
  ~ In j (sampled p) -> nth j (prio (pb_update p ps)) 0%Q = nth j (prio p) 0%Q.
Proof.
  intros H Hn. rewrite update_exact by exact H. rewrite last_assoc_none; [reflexivity|].
  intro Hin. apply Hn. clear -Hin. revert ps Hin. generalize (sampled p) as s.
  induction s as [|i s IH]; intros [|v ps] Hin; cbn in *; try contradiction.
  destruct Hin; [left; assumption|right; eapply IH; eassumption].
Qed.

(** initialize_priority: the newly written slot receives the current maximum. *)
Theorem new_gets_max {A} (b : lap A) (x : A) :
  ins (l_rb b) < length (prio (l_pb b)) ->
  nth (ins (l_rb b)) (prio (l_pb (lap_add b x))) 0%Q = maxp (l_pb b) /\
  maxp (l_pb (lap_add b x)) = maxp (l_pb b) /\
  forall j, j <> ins (l_rb b) -> nth j (prio (l_pb (lap_add b x))) 0%Q = nth j (prio (l_pb b)) 0%Q.
Proof.
  intro H. unfold lap_add, pb_init_prio; cbn. repeat split.
  - apply nth_upd_same; exact H.
  - intros j Hj. apply nth_upd_other. congruence.
Qed.

(* ---- the dominance invariant over all histories ---- *)
Definition Dom (n : nat) (p : pb) : Prop :=
  Forall (fun x => x <= maxp p)%Q (firstn n (prio p)).

(** reset_max_priority: afterwards max_priority is the true maximum of the filled region. *)
Theorem reset_exact p n : 0 < n -> 0 < length (prio p) ->
  Dom n (pb_reset p n) /\ In (maxp (pb_reset p n)) (firstn n (prio p)) /\ prio (pb_reset p n) = prio p.
Proof.
  intros Hn Hl. unfold pb_reset, Dom. destruct (firstn n (prio p)) as [|x t] eqn:E.
  - exfalso. destruct n; [lia|]. destruct (prio p); cbn in *; [lia|discriminate].
  - cbn [prio maxp]. rewrite E. destruct (qmax_list_ge t x) as [Hx Ht].
    repeat split; [constructor; assumption|apply qmax_list_in].
Qed.

Lemma dom_reset p n : Dom n (pb_reset p n).
Proof.
  unfold pb_reset, Dom. destruct (firstn n (prio p)) as [|x t] eqn:E.
  - rewrite E. constructor.
  - cbn [prio maxp]. rewrite E. destruct (qmax_list_ge t x) as [Hx Ht]. constructor; assumption.
Qed.

Lemma firstn_upd_ge {A} (l : list A) n i x : n <= i -> firstn n (upd l i x) = firstn n l.
Proof.
  revert n i; induction l as [|h t IH]; intros [|n] [|i] H; cbn; auto; try lia. f_equal. apply IH. lia.
Qed.

Lemma Forall_firstn_upd {A} (P : A -> Prop) (l : list A) n i x :
  Forall P (firstn n l) -> P x -> Forall P (firstn n (upd l i x)).
Proof.
  revert n i; induction l as [|h t IH]; intros [|n] [|i] H Hx; cbn in *; auto;
    inversion H; subst; constructor; auto.
Qed.

Lemma Forall_weaken_max (l : list Q) m m' : (m <= m')%Q ->
  Forall (fun x => x <= m)%Q l -> Forall (fun x => x <= m')%Q l.
Proof. intros Hm H. eapply Forall_impl; [|exact H]. cbn. intros a Ha. lra. Qed.

Lemma dom_update p ps n : Dom n p -> Dom n (pb_update p ps).
Proof.
  unfold Dom, pb_update; cbn [prio maxp]. intro H.
  destruct (qmax_list_ge ps (maxp p)) as [Hm Hps].
  apply (Forall_weaken_max _ _ _ Hm) in H.
  set (M := qmax_list ps (maxp p)) in *. clearbody M. clear Hm.
  revert ps Hps H. generalize (prio p) as pr. generalize (sampled p) as s.
  induction s as [|i s IH]; intros pr [|v ps] Hps H; cbn [combine fold_left]; auto.
  inversion Hps; subst. apply IH; [assumption|]. cbn [fst snd]. apply Forall_firstn_upd; assumption.
Qed.

Lemma dom_update_scalar p v n : Dom n p -> Dom n (pb_update_scalar p v).
Proof.
  unfold Dom, pb_update_scalar; cbn [prio maxp]. intro H.
  apply (Forall_weaken_max _ _ _ (qmax_ge_r v (maxp p))) in H.
  pose proof (qmax_ge_l v (maxp p)) as Hv.
  set (M := qmax v (maxp p)) in *. clearbody M.
  revert H. generalize (prio p) as pr. generalize (sampled p) as s.
  induction s as [|i s IH]; intros pr H; cbn [fold_left]; auto.
  apply IH. apply Forall_firstn_upd; assumption.
Qed.

Lemma firstn_S_upd_last {A} (l : list A) n x : n < length l ->
  firstn (S n) (upd l n x) = firstn n l ++ [x].
Proof.
  revert n; induction l as [|h t IH]; intros [|n] H; cbn in *; try lia; auto. f_equal. apply IH. lia.
Qed.

(** State of a LAP / PER buffer after any history of operations. *)
Definition lap_after (strat : bool) (N : nat) (ops : list lapop) : lap Z :=
  fold_left (fun b o => fst (lap_step strat b o)) ops (lap_init N).

Definition LInv (N : nat) (b : lap Z) : Prop :=
  length (prio (l_pb b)) = N /\ cap (l_rb b) = N /\ ins (l_rb b) < N /\ len (l_rb b) <= N /\
  (len (l_rb b) < N -> ins (l_rb b) = len (l_rb b)) /\
  Dom (len (l_rb b)) (l_pb b).

Lemma linv_init N : 1 <= N -> LInv N (lap_init N).
Proof.
  intro HN. unfold LInv, lap_init, Dom; cbn. rewrite repeat_length. repeat split; try lia. constructor.
Qed.

Lemma linv_step strat N b o : 1 <= N -> LInv N b -> LInv N (fst (lap_step strat b o)).
Proof.
  intros HN (Hl & Hc & Hi & Hn & Hfill & Hd).
  destruct o as [x|us|ps|v|]; cbn [lap_step].
  - (* add *)
    cbn [fst]. unfold LInv, lap_add, rb_add, pb_init_prio, Dom in *; cbn [l_rb l_pb prio maxp cap ins len fold_left].
    rewrite upd_length, Hc. repeat split; auto.
    + apply Nat.mod_upper_bound; lia.
    + lia.
    + intro Hlt. destruct (Nat.lt_ge_cases (len (l_rb b)) N) as [Hnf|Hf]; [|lia].
      rewrite (Hfill Hnf). rewrite Nat.mod_small by lia. lia.
    + destruct (Nat.lt_ge_cases (len (l_rb b)) N) as [Hnf|Hf].
      * rewrite (Hfill Hnf). replace (Nat.min (len (l_rb b) + 1) N) with (S (len (l_rb b))) by lia.
        rewrite firstn_S_upd_last by lia. apply Forall_app. split; [exact Hd|].
        constructor; [lra|constructor].
      * replace (Nat.min (len (l_rb b) + 1) N) with (len (l_rb b)) by lia.
        apply Forall_firstn_upd; [exact Hd|lra].
  - (* sample: priorities unchanged *)
    destruct strat; cbn [fst].
    + unfold per_sample. cbn [fst]. unfold LInv, Dom in *; cbn. repeat split; auto.
    + unfold lap_sample, pb_sample. cbn [fst]. unfold LInv, Dom in *; cbn. repeat split; auto.
  - cbn [fst]. unfold LInv, lap_update in *; cbn [l_rb l_pb]. repeat split; auto.
    + unfold pb_update; cbn [prio]. rewrite fold_upd_length. exact Hl.
    + apply dom_update, Hd.
  - cbn [fst]. unfold LInv, lap_update_scalar in *; cbn [l_rb l_pb]. repeat split; auto.
    + unfold pb_update_scalar; cbn [prio]. rewrite fold_upd_idx_length. exact Hl.
    + apply dom_update_scalar, Hd.
  - cbn [fst]. unfold LInv, lap_reset in *; cbn [l_rb l_pb]. repeat split; auto.
    + unfold pb_reset. destruct (firstn _ _); [exact Hl|cbn; exact Hl].
    + apply dom_reset.
Qed.

(** For every history of add / sample / update / reset operations on LAP or PER, the
    tracked maximum dominates every stored priority. *)
Theorem max_dominates strat N ops : 1 <= N ->
  let b := lap_after strat N ops in
  Forall (fun x => x <= maxp (l_pb b))%Q (firstn (len (l_rb b)) (prio (l_pb b))).
Proof.
  intro HN. cbn zeta.
  assert (G : forall ops b, LInv N b -> LInv N (fold_left (fun b o => fst (lap_step strat b o)) ops b)).
  { clear ops. induction ops as [|o ops IH]; intros b HI; cbn [fold_left]; [exact HI|].
    apply IH, linv_step; assumption. }
  destruct (G ops (lap_init N) (linv_init N HN)) as (_ & _ & _ & _ & _ & Hd). exact Hd.
Qed.

(** The write position always lies inside the priority array, so every addition in
    every history receives the current maximum priority ([new_gets_max]). *)
Theorem ins_in_range strat N ops : 1 <= N ->
  let b := lap_after strat N ops in ins (l_rb b) < length (prio (l_pb b)).
Proof.
  intro HN. cbn zeta.
  assert (G : forall ops b, LInv N b -> LInv N (fold_left (fun b o => fst (lap_step strat b o)) ops b)).
  { clear ops. induction ops as [|o ops IH]; intros b HI; cbn [fold_left]; [exact HI|].
    apply IH, linv_step; assumption. }
  destruct (G ops (lap_init N) (linv_init N HN)) as (Hl & _ & Hi & _). unfold lap_after. lia.
Qed.

(** Multi-task wrapper: a priority update reaches only the task sampled last. *)
Theorem mt_update_targets_sampled (m : mt (lap Z)) ps t :
  sampled_task m <> Some t ->
  nth_error (bufs (fst (mt_step m (MUpdate ps)))) t = nth_error (bufs m) t.
Proof.
  intro H. cbn [mt_step]. destruct (sampled_task m) as [s|]; [|reflexivity].
  destruct (nth_error (bufs m) s) eqn:E; [|reflexivity]. cbn [fst set_buf bufs].
  assert (Hn : s <> t) by congruence. clear -Hn.
  revert s t Hn. generalize (bufs m) as l0. induction l0 as [|h r IH]; intros [|s] [|t] Hn; cbn; auto; try congruence.
Qed.

(* ---- frame conditions: what sampling and adding leave untouched ---- *)
(** sampling never changes the stored priorities or the tracked maximum *)
Lemma pb_sample_frame p n mask us : prio (fst (pb_sample p n mask us)) = prio p /\ maxp (fst (pb_sample p n mask us)) = maxp p.
Proof. unfold pb_sample. cbn. split; reflexivity. Qed.

Lemma sbp_sample_frame b us :
  p_sb (fst (sbp_sample_starts b us)) = p_sb b /\ prio (p_pb (fst (sbp_sample_starts b us))) = prio (p_pb b) /\
  maxp (p_pb (fst (sbp_sample_starts b us))) = maxp (p_pb b).
Proof. unfold sbp_sample_starts, pb_sample. cbn. repeat split; reflexivity. Qed.

(** initialising the priority of the written slots leaves every other slot untouched *)
Lemma pb_init_prio_frame p idxs j : ~ In j idxs -> nth j (prio (pb_init_prio p idxs)) 0%Q = nth j (prio p) 0%Q.
Proof.
  unfold pb_init_prio. cbn [prio]. generalize (prio p) as pr. induction idxs as [|i idxs IH]; intros pr H; cbn [fold_left]; [reflexivity|].
  rewrite IH by (intro Hc; apply H; right; exact Hc).
  apply nth_upd_other. intro E. apply H. left. exact E.
Qed.

(** the in-place variant (masked priorities written back into the store) loses the priority of an
    entry that was masked at the time of a draw: it can never be drawn afterwards *)
Definition pb_sample_inplace (p : pb) (n : nat) (mask : option (list bool)) (us : list Q) : pb * list nat :=
  let idx := pb_sample_idx (prio p) n mask us in
  ({| prio := apply_mask (firstn n (prio p)) (option_map (firstn n) mask) ++ skipn n (prio p); maxp := maxp p; sampled := idx |}, idx).
Lemma pb_sample_inplace_refuted :
  exists p n mask us i, (0 < nth i (prio p) 0)%Q /\ (nth i (prio (fst (pb_sample_inplace p n mask us))) 0 == 0)%Q.
Proof.
  exists {| prio := [1; 1; 1]%Q; maxp := 1%Q; sampled := [] |}, 3, (Some [true; true; false]), [(1 # 2)%Q], 2.
  split; vm_compute; reflexivity.
Qed.
