(** C01 / C11 — the training-loop skeleton: stored experience equals what the environment
    produced; step budget, episode discipline and accounting are exact. *)
From Coq Require Import List Arith Bool Lia.
From RLV Require Import Model.Loop.
Import ListNotations.

(* ---- reading the environment's call log ---- *)
Definition is_step (e : event) : bool := match e with EStep _ _ _ _ _ _ => true | _ => false end.
Definition count_steps (log : list event) : nat := length (filter is_step log).
Definition ends_episode (e : event) : bool := match e with EStep _ _ _ _ te tr => te || tr | _ => false end.
Definition count_episodes (log : list event) : nat := length (filter ends_episode log).
(** the transition a step event stands for: (observation returned last before the action,
    action tag, reward, successor observation, terminated) *)
Fixpoint transitions_of (log : list event) : list trans :=
  match log with
  | [] => []
  | EStep prev k o' r te _ :: t => (prev, k, r, o', te) :: transitions_of t
  | _ :: t => transitions_of t
  end.
Fixpoint acted_of (log : list event) : list obs :=
  match log with
  | [] => []
  | EStep prev _ _ _ _ _ :: t => prev :: acted_of t
  | _ :: t => acted_of t
  end.
(** the [prev] field of every step is the observation returned by the preceding call *)
Fixpoint consistent (last : option obs) (log : list event) : Prop :=
  match log with
  | [] => True
  | EReset o :: t => consistent (Some o) t
  | EStep prev _ o' _ _ _ :: t => last = Some prev /\ consistent (Some o') t
  end.
Definition last_obs (last : option obs) (log : list event) : option obs :=
  fold_left (fun l e => match e with EReset o => Some o | EStep _ _ o' _ _ _ => Some o' end) log last.

Lemma transitions_app a b : transitions_of (a ++ b) = transitions_of a ++ transitions_of b.
Proof. induction a as [|[o|p k o' r te tr] a IH]; cbn; auto. rewrite IH. reflexivity. Qed.
Lemma acted_app a b : acted_of (a ++ b) = acted_of a ++ acted_of b.
Proof. induction a as [|[o|p k o' r te tr] a IH]; cbn; auto. rewrite IH. reflexivity. Qed.
Lemma count_steps_app a b : count_steps (a ++ b) = count_steps a + count_steps b.
Proof. unfold count_steps. rewrite filter_app, app_length. reflexivity. Qed.
Lemma count_episodes_app a b : count_episodes (a ++ b) = count_episodes a + count_episodes b.
Proof. unfold count_episodes. rewrite filter_app, app_length. reflexivity. Qed.
Lemma consistent_app l a b : consistent l (a ++ b) <-> consistent l a /\ consistent (last_obs l a) b.
Proof.
  revert l; induction a as [|[o|p k o' r te tr] a IH]; intro l; cbn [app consistent last_obs fold_left].
  - tauto.
  - apply IH.
  - rewrite IH. unfold last_obs. tauto.
Qed.

(* ---- the invariant ---- *)
Record Inv (c : cfg) (start : nat) (s : lstate) : Prop := {
  inv_last : last_obs None (l_log s) = Some (l_last s);
  inv_cons : consistent None (l_log s);
  inv_cur : c_obs_rule c = ResetElseNext -> l_stop s = false -> l_cur s = l_last s;
  inv_stored : c_obs_rule c = ResetElseNext -> l_stored s = transitions_of (l_log s);
  inv_acted : c_obs_rule c = ResetElseNext -> l_acted_on s = acted_of (l_log s);
  inv_step : l_step s = start + count_steps (l_log s);
  inv_budget : start + count_steps (l_log s) <= Nat.max start (c_budget c);
  inv_eps : l_episodes s = count_episodes (l_log s);
  inv_viol : e_violated (l_env s) = false;
  inv_done : l_stop s = false -> e_done (l_env s) = false;
  inv_gate : Forall (fun u => c_gate c u = true /\ start <= u < l_step s) (l_updates s);
  inv_limit : forall E, c_limit c = Some E -> 1 <= E ->
              l_episodes s <= E /\ (l_stop s = true -> l_episodes s = E) /\ (l_stop s = false -> l_episodes s < E);
  inv_nolimit : c_limit c = None -> l_stop s = false
}.

Lemma inv_init c script start : Inv c start (loop_init script start).
Proof.
  unfold loop_init. cbn. constructor; cbn; auto; try lia.
Qed.

Lemma forall_weaken c start (l : list nat) a b : a <= b ->
  Forall (fun u => c_gate c u = true /\ start <= u < a) l -> Forall (fun u => c_gate c u = true /\ start <= u < b) l.
Proof. intros Hab H. eapply Forall_impl; [|exact H]. cbn. intros u [H1 H2]. split; [exact H1|lia]. Qed.

Lemma iter_inv c start s : Inv c start s -> Inv c start (iter c s).
Proof.
  intro HI. destruct HI as [Hlast Hcons Hcur Hst Hact Hstep Hbud Heps Hviol Hdone Hgate Hlim Hnolim].
  unfold iter.
  destruct (l_stop s) eqn:Estop; cbn [orb]; [constructor; auto; rewrite ?Estop; auto|].
  destruct (Nat.ltb_spec (l_step s) (c_budget c)) as [Hlt|Hge]; cbn [negb]; [|constructor; auto; rewrite ?Estop; auto].
  specialize (Hdone eq_refl).
  assert (Hcur' : c_obs_rule c = ResetElseNext -> l_cur s = l_last s) by (intro Hr; apply Hcur; [exact Hr|reflexivity]).
  unfold env_step. destruct (script_at (l_env s) (e_ep (l_env s))) as [L k].
  set (t1 := S (e_t (l_env s))).
  set (term := Nat.leb L t1 && match k with Term => true | Trunc => false end).
  set (trunc := Nat.leb L t1 && match k with Term => false | Trunc => true end).
  set (o' := (e_ep (l_env s), t1)). set (r := S (e_steps (l_env s))).
  set (ev := EStep (l_last s) (l_step s) o' r term trunc).
  assert (Hcons1 : consistent None (l_log s ++ [ev])).
  { apply consistent_app. split; [exact Hcons|]. rewrite Hlast. cbn. auto. }
  assert (Hlast1 : last_obs None (l_log s ++ [ev]) = Some o') by (unfold last_obs; rewrite fold_left_app; reflexivity).
  assert (Hcnt1 : count_steps (l_log s ++ [ev]) = S (count_steps (l_log s))) by (rewrite count_steps_app; cbn; lia).
  assert (Hgate1 : Forall (fun u => c_gate c u = true /\ start <= u < S (l_step s))
                     (if c_gate c (l_step s) then l_updates s ++ [l_step s] else l_updates s)).
  { destruct (c_gate c (l_step s)) eqn:Eg.
    - apply Forall_app. split; [eapply forall_weaken; [|exact Hgate]; lia|]. constructor; [|constructor]. split; [exact Eg|lia].
    - eapply forall_weaken; [|exact Hgate]; lia. }
  assert (Hst1 : c_obs_rule c = ResetElseNext -> l_stored s ++ [(l_cur s, l_step s, r, o', term)] = transitions_of (l_log s ++ [ev])).
  { intro Hr. rewrite transitions_app, <- (Hst Hr), (Hcur' Hr). reflexivity. }
  assert (Hact1 : c_obs_rule c = ResetElseNext -> l_acted_on s ++ [l_cur s] = acted_of (l_log s ++ [ev])).
  { intro Hr. rewrite acted_app, <- (Hact Hr), (Hcur' Hr). reflexivity. }
  assert (Hviol1 : e_violated (l_env s) || e_done (l_env s) = false) by (rewrite Hviol, Hdone; reflexivity).
  destruct (term || trunc) eqn:Eend.
  - (* the episode ends *)
    assert (Heps1 : count_episodes (l_log s ++ [ev]) = S (count_episodes (l_log s))).
    { rewrite count_episodes_app. cbn. rewrite Eend. cbn. lia. }
    assert (Hreset : forall o0, transitions_of ((l_log s ++ [ev]) ++ [EReset o0]) = transitions_of (l_log s ++ [ev]) /\
                                acted_of ((l_log s ++ [ev]) ++ [EReset o0]) = acted_of (l_log s ++ [ev]) /\
                                count_steps ((l_log s ++ [ev]) ++ [EReset o0]) = S (count_steps (l_log s)) /\
                                count_episodes ((l_log s ++ [ev]) ++ [EReset o0]) = S (count_episodes (l_log s)) /\
                                consistent None ((l_log s ++ [ev]) ++ [EReset o0]) /\
                                last_obs None ((l_log s ++ [ev]) ++ [EReset o0]) = Some o0).
    { intro o0. rewrite transitions_app, acted_app, count_steps_app, count_episodes_app, Hcnt1, Heps1. cbn.
      rewrite !app_nil_r. repeat split; try lia.
      - apply consistent_app. split; [exact Hcons1|cbn; auto].
      - unfold last_obs. rewrite !fold_left_app. reflexivity. }
    destruct (c_limit_pos c).
    + (* LimitBeforeReset *)
      destruct (limit_reached c (S (l_episodes s))) eqn:Elim.
      * constructor; cbn [l_log l_last l_cur l_stored l_acted_on l_step l_episodes l_env l_updates l_stop e_violated e_done].
        -- exact Hlast1.
        -- exact Hcons1.
        -- intros _ Hf; discriminate.
        -- exact Hst1.
        -- exact Hact1.
        -- rewrite Hcnt1. lia.
        -- rewrite Hcnt1. lia.
        -- rewrite Heps1, Heps. reflexivity.
        -- exact Hviol1.
        -- intro; discriminate.
        -- exact Hgate1.
        -- intros E HE H1. unfold limit_reached in Elim. rewrite HE in Elim. apply Nat.leb_le in Elim.
           destruct (Hlim E HE H1) as (_ & _ & Hlt'). specialize (Hlt' eq_refl). repeat split; try lia; try (intro; discriminate).
        -- intro Hn. unfold limit_reached in Elim. rewrite Hn in Elim. discriminate.
      * unfold env_reset. cbn [e_started].
        match goal with |- context [EReset ?o] => destruct (Hreset o) as (R1 & R2 & R3 & R4 & R5 & R6) end.
        constructor; cbn [l_log l_last l_cur l_stored l_acted_on l_step l_episodes l_env l_updates l_stop e_violated e_done].
        -- exact R6.
        -- exact R5.
        -- intros Hr _. rewrite Hr. reflexivity.
        -- intro Hr. rewrite R1. apply Hst1, Hr.
        -- intro Hr. rewrite R2. apply Hact1, Hr.
        -- rewrite R3. lia.
        -- rewrite R3. lia.
        -- rewrite R4, Heps. reflexivity.
        -- exact Hviol1.
        -- intros _. reflexivity.
        -- exact Hgate1.
        -- intros E HE H1. unfold limit_reached in Elim. rewrite HE in Elim. apply Nat.leb_gt in Elim.
           repeat split; try lia; try (intro; discriminate).
        -- intros _. reflexivity.
    + (* LimitAfterReset *)
      unfold env_reset. cbn [e_started].
      match goal with |- context [EReset ?o] => destruct (Hreset o) as (R1 & R2 & R3 & R4 & R5 & R6) end.
      constructor; cbn [l_log l_last l_cur l_stored l_acted_on l_step l_episodes l_env l_updates l_stop e_violated e_done].
      * exact R6.
      * exact R5.
      * intros Hr _. rewrite Hr. reflexivity.
      * intro Hr. rewrite R1. apply Hst1, Hr.
      * intro Hr. rewrite R2. apply Hact1, Hr.
      * rewrite R3. lia.
      * rewrite R3. lia.
      * rewrite R4, Heps. reflexivity.
      * exact Hviol1.
      * intros _. reflexivity.
      * exact Hgate1.
      * intros E HE H1. destruct (Hlim E HE H1) as (_ & _ & Hlt'). specialize (Hlt' eq_refl).
        unfold limit_reached. rewrite HE. destruct (Nat.leb_spec E (S (l_episodes s))); repeat split; try lia; try (intro; discriminate).
      * intro Hn. unfold limit_reached. rewrite Hn. reflexivity.
  - (* ordinary step *)
    assert (Heps1 : count_episodes (l_log s ++ [ev]) = count_episodes (l_log s)).
    { rewrite count_episodes_app. cbn. rewrite Eend. cbn. lia. }
    constructor; cbn [l_log l_last l_cur l_stored l_acted_on l_step l_episodes l_env l_updates l_stop e_violated e_done].
    + exact Hlast1.
    + exact Hcons1.
    + intros _ _. reflexivity.
    + exact Hst1.
    + exact Hact1.
    + rewrite Hcnt1. lia.
    + rewrite Hcnt1. lia.
    + rewrite Heps1. exact Heps.
    + exact Hviol1.
    + intros _. reflexivity.
    + exact Hgate1.
    + intros E HE H1. destruct (Hlim E HE H1) as (H2 & _ & Hlt'). specialize (Hlt' eq_refl). repeat split; try lia; try (intro; discriminate).
    + intro Hn. reflexivity.
Qed.

Lemma run_inv c start fuel : forall s, Inv c start s -> Inv c start (run c fuel s).
Proof. induction fuel as [|f IH]; intros s HI; cbn [run]; [exact HI|]. apply IH, iter_inv, HI. Qed.

Theorem train_inv c script start : Inv c start (train c script start).
Proof. unfold train. apply run_inv, inv_init. Qed.

(* ---- the property-level corollaries ---- *)
(** C01: every kept transition is (the observation the environment returned last before the
    action, the action, the reward, successor observation and termination flag of that step),
    across episode boundaries, and the policy is conditioned on that same observation. *)
Theorem loop_stores_env_transitions c script start : c_obs_rule c = ResetElseNext ->
  let s := train c script start in
  l_stored s = transitions_of (l_log s) /\ l_acted_on s = acted_of (l_log s) /\ consistent None (l_log s).
Proof. intro Hr. destruct (train_inv c script start). auto. Qed.

(** the PETS loop before its repair (reset, then unconditionally obs = next_obs) is refuted *)
Theorem loop_obs_reset_then_next_refuted : exists c script start,
  c_obs_rule c = ResetThenNext /\
  let s := train c script start in l_stored s <> transitions_of (l_log s).
Proof.
  exists {| c_budget := 3; c_limit := None; c_limit_pos := LimitBeforeReset; c_gate := fun _ => false; c_obs_rule := ResetThenNext |},
         [(1, Term)], 0.
  split; [reflexivity|]. vm_compute. intro H. discriminate.
Qed.

(** C11: never more environment steps than the remaining budget; exact accounting *)
Theorem steps_le_budget c script start :
  let s := train c script start in
  count_steps (l_log s) <= c_budget c - start /\ l_step s = start + count_steps (l_log s).
Proof. cbn zeta. destruct (train_inv c script start) as [_ _ _ _ _ Hs Hb _ _ _ _ _ _]. split; [lia|exact Hs]. Qed.

Theorem never_steps_finished_env c script start : e_violated (l_env (train c script start)) = false.
Proof. destruct (train_inv c script start). assumption. Qed.

Theorem no_update_outside_gate c script start :
  Forall (fun u => c_gate c u = true /\ start <= u < l_step (train c script start)) (l_updates (train c script start)).
Proof. destruct (train_inv c script start). assumption. Qed.

Corollary no_update_before_warmup ls (c : cfg) script start : (forall u, c_gate c u = true -> ls <= u) ->
  Forall (fun u => ls <= u) (l_updates (train c script start)).
Proof.
  intro Hg. eapply Forall_impl; [|apply no_update_outside_gate]. cbn. intros u [H _]. apply Hg, H.
Qed.

Theorem stops_at_episode_limit c script start E : c_limit c = Some E -> 1 <= E ->
  let s := train c script start in
  count_episodes (l_log s) <= E /\ (l_stop s = true <-> count_episodes (l_log s) = E).
Proof.
  intros HE H1. cbn zeta. destruct (train_inv c script start) as [_ _ _ _ _ _ _ Heps _ _ _ Hlim _].
  destruct (Hlim E HE H1) as (A & B & C). rewrite <- Heps. split; [exact A|]. split; [exact B|].
  intro Heq. destruct (l_stop (train c script start)); [reflexivity|]. specialize (C eq_refl). lia.
Qed.

(** Non-vacuity: a run with an episode boundary, a warm-up gate and an episode limit. *)
Example loop_example :
  let c := {| c_budget := 10; c_limit := Some 2; c_limit_pos := LimitBeforeReset; c_gate := gate_ge 3; c_obs_rule := ResetElseNext |} in
  let s := train c [(2, Term); (3, Trunc)] 1 in
  l_step s = 6 /\ l_updates s = [3; 4; 5] /\ l_stop s = true /\
  map (fun t => fst (fst (fst (fst t)))) (l_stored s) = [(0, 0); (0, 1); (1, 0); (1, 1); (1, 2)].
Proof. vm_compute. repeat split; reflexivity. Qed.

(* ------------------------------------------------------------------ *)
(** ** the executed action is computed from the current observation *)
Lemma obs_eqb_refl (o : obs) : obs_eqb o o = true.
Proof. unfold obs_eqb. rewrite !Nat.eqb_refl. reflexivity. Qed.

Lemma act_iter_fresh (s : astate) :
  Forall (fun p => fst p = snd p) (a_used s) -> Forall (fun p => fst p = snd p) (a_used (act_iter ActFresh s)).
Proof.
  intros H. unfold act_iter.
  destruct (env_step (a_env s)) as [e1 [[[o' r] term] trunc]].
  assert (Hu : Forall (fun p : obs * obs => fst p = snd p) (a_used s ++ [(a_last s, a_last s)])).
  { apply Forall_app. split; [exact H | constructor; [reflexivity | constructor]]. }
  destruct (term || trunc).
  - destruct (env_reset e1) as [e2 o0]. exact Hu.
  - exact Hu.
Qed.

Lemma act_iter_length (rule : act_rule) (s : astate) : length (a_used (act_iter rule s)) = S (length (a_used s)).
Proof.
  unfold act_iter. destruct (env_step (a_env s)) as [e1 [[[o' r] term] trunc]].
  destruct (term || trunc); [destruct (env_reset e1) as [e2 o0]|]; cbn [a_used]; rewrite app_length; cbn; lia.
Qed.

Theorem act_fresh_conditioned (script : list (nat * endk)) (n : nat) :
  Forall (fun p => fst p = snd p) (a_used (act_run ActFresh n (act_init script))).
Proof.
  assert (H0 : Forall (fun p : obs * obs => fst p = snd p) (a_used (act_init script))).
  { unfold act_init. destruct (env_reset (env_init script)) as [e o]. constructor. }
  revert H0. generalize (act_init script). induction n as [|n IH]; intros s H; cbn [act_run]; [exact H|].
  apply IH. apply act_iter_fresh. exact H.
Qed.

Theorem act_run_length (rule : act_rule) (script : list (nat * endk)) (n : nat) :
  length (a_used (act_run rule n (act_init script))) = n.
Proof.
  assert (H0 : length (a_used (act_init script)) = 0).
  { unfold act_init. destruct (env_reset (env_init script)) as [e o]. reflexivity. }
  assert (G : forall s, length (a_used (act_run rule n s)) = n + length (a_used s)).
  { induction n as [|n IH]; intros s; cbn [act_run]; [reflexivity|]. rewrite IH, act_iter_length. lia. }
  rewrite G, H0. lia.
Qed.

Theorem act_fresh_flags (script : list (nat * endk)) (n : nat) :
  act_flags ActFresh script n = repeat true n.
Proof.
  unfold act_flags. rewrite <- (act_run_length ActFresh script n) at 2.
  pose proof (act_fresh_conditioned script n) as H.
  induction H as [|p l Hp Hl IH]; [reflexivity|].
  cbn [map length repeat]. rewrite Hp, obs_eqb_refl, IH. reflexivity.
Qed.

(** carrying the action over an episode end: the first action of the new episode was computed from the
    previous episode's final observation *)
Theorem act_carried_refuted :
  exists script n, ~ Forall (fun p => fst p = snd p) (a_used (act_run ActCarried n (act_init script))).
Proof.
  exists [(1, Term)], 2. vm_compute. intros H. inversion H as [|p l Hp Hl]; subst. inversion Hl as [|p' l' Hp' Hl']; subst.
  cbn in Hp'. discriminate.
Qed.

(** ... and nowhere else: inside an episode the carried action is the fresh one *)
Example act_carried_flags_example : act_flags ActCarried [(2, Term); (3, Trunc)] 6 = [true; true; false; true; true; false].
Proof. vm_compute. reflexivity. Qed.
