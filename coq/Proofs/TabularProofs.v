(** C14 — tabular learners apply their textbook update to exactly one entry (over R). *)
From Coq Require Import Reals List Bool Arith Lra Lia.
From RLV Require Import Model.Num Model.Buffers Model.Tabular Proofs.RingProofs Proofs.WeightsProofs.
Import ListNotations.
Local Open Scope R_scope.

(** Well-shaped tables: ns rows of na entries. *)
Definition wf (ns na : nat) (t : table (F := R)) : Prop :=
  length t = ns /\ Forall (fun row => length row = na) t.

Lemma wf_row ns na t s : wf ns na t -> (s < ns)%nat -> length (trow t s) = na.
Proof.
  intros [Hl Hr] Hs. unfold trow. rewrite Forall_forall in Hr. apply Hr, nth_In. lia.
Qed.

Lemma tget_tset ns na (t : table) s a v s' a' : wf ns na t -> (s < ns)%nat -> (a < na)%nat ->
  tget (tset t s a v) s' a' = if Nat.eqb s s' && Nat.eqb a a' then v else tget t s' a'.
Proof.
  intros Hwf Hs Ha. pose proof (wf_row ns na t s Hwf Hs) as Hrow. destruct Hwf as [Hl _].
  unfold tget, tset, trow.
  destruct (Nat.eqb_spec s s') as [<-|Hne]; cbn [andb].
  - rewrite nth_upd_same by lia. rewrite nth_upd.
    destruct (Nat.eqb_spec a a') as [<-|Hna]; [|reflexivity].
    fold (trow t s). rewrite Hrow. destruct (Nat.ltb_spec a na); [reflexivity|lia].
  - rewrite nth_upd_other by exact Hne. reflexivity.
Qed.

Lemma wf_tset ns na (t : table) s a v : wf ns na t -> wf ns na (tset t s a v).
Proof.
  intros [Hl Hr]. unfold tset, wf. rewrite upd_length. split; [exact Hl|].
  rewrite Forall_forall in *. intros row Hin.
  apply In_nth with (d := []) in Hin. destruct Hin as (i & Hi & <-). rewrite upd_length in Hi.
  rewrite nth_upd. destruct (Nat.eqb s i) eqn:E.
  - destruct (Nat.ltb s (length t)); [rewrite upd_length; apply Hr, nth_In; apply Nat.eqb_eq in E; lia|apply Hr, nth_In; lia].
  - apply Hr, nth_In; lia.
Qed.

(* ---- greedy = a maximiser (first one) ---- *)
Lemma Rleb_spec a b : reflect (a <= b) (Rleb a b).
Proof. unfold Rleb. destruct (Rle_dec a b); constructor; assumption. Qed.

Lemma argmax_from_spec (l : list R) : forall best bi k,
  let i := argmax_from best bi k l in
  (i = bi /\ Forall (fun x => x <= best) l) \/
  (exists j, i = (k + j)%nat /\ (j < length l)%nat /\ best < nth j l 0 /\
             Forall (fun x => x <= nth j l 0) l /\ (forall j', (j' < j)%nat -> nth j' l 0 < nth j l 0)).
Proof.
  induction l as [|x t IH]; intros best bi k; cbn [argmax_from].
  - left. split; [reflexivity|constructor].
  - unfold nltb. cbn [nleb R_ops]. destruct (Rleb_spec x best) as [Hle|Hgt]; cbn [negb].
    + destruct (IH best bi (S k)) as [[E Hall]|(j & E & Hj & Hb & Hall & Hfirst)].
      * left. split; [exact E|constructor; assumption].
      * right. exists (S j). cbn [nth length].
        split; [lia|]. split; [lia|]. split; [exact Hb|]. split; [constructor; [lra|exact Hall]|].
        intros [|j'] Hj'; cbn [nth]; [lra|apply Hfirst; lia].
    + apply Rnot_le_lt in Hgt.
      destruct (IH x k (S k)) as [[E Hall]|(j & E & Hj & Hb & Hall & Hfirst)].
      * right. exists 0%nat. cbn [nth length].
        split; [lia|]. split; [lia|]. split; [exact Hgt|]. split; [constructor; [lra|exact Hall]|].
        intros j' Hj'; lia.
      * right. exists (S j). cbn [nth length].
        split; [lia|]. split; [lia|]. split; [lra|]. split; [constructor; [lra|exact Hall]|].
        intros [|j'] Hj'; cbn [nth]; [lra|apply Hfirst; lia].
Qed.

(** jnp.argmax: the returned index is in range, its value is >= every entry, and every
    earlier entry is strictly smaller (first maximiser). *)
Theorem argmax_is_max (l : list R) : l <> [] ->
  (nargmax l < length l)%nat /\ Forall (fun x => x <= nth (nargmax l) l 0) l /\
  (forall j, (j < nargmax l)%nat -> nth j l 0 < nth (nargmax l) l 0).
Proof.
  destruct l as [|x t]; [congruence|intros _]. unfold nargmax.
  destruct (argmax_from_spec t x 0%nat 1%nat) as [[E Hall]|(j & E & Hj & Hb & Hall & Hfirst)]; cbn zeta in *; rewrite E.
  - cbn [nth length]. repeat split; [lia|constructor; [lra|exact Hall]|intros j Hj; lia].
  - cbn [Nat.add nth length]. repeat split; [lia|constructor; [lra|exact Hall]|].
    intros [|j'] Hj'; cbn [nth]; [exact Hb|apply Hfirst; lia].
Qed.

(* ---- single updates ---- *)
Section Updates.
  Variables (ns na : nat) (t t2 : table (F := R)).
  Hypothesis Hwf : wf ns na t.
  Variables (s a s' : nat) (r gamma lr : R) (term : bool).
  Hypothesis Hs : (s < ns)%nat.
  Hypothesis Ha : (a < na)%nat.

  Definition bool01 (b : bool) : R := if b then 1 else 0.

  (** Q-learning / SARSA: only (s,a) changes, by lr * (r + gamma (1 - term) Q(s',a') - Q(s,a)). *)
  Theorem update_policy_spec a' s1 a1 :
    tget (update_policy t s a r s' a' gamma term lr) s1 a1 =
    if Nat.eqb s s1 && Nat.eqb a a1
    then tget t s a + lr * (r + gamma * ((1 - bool01 term) * tget t s' a') - tget t s a)
    else tget t s1 a1.
  Proof.
    unfold update_policy. rewrite (tget_tset ns na) by assumption.
    destruct (Nat.eqb s s1 && Nat.eqb a a1); [|reflexivity].
    unfold td_error. destruct term; cbn; ring.
  Qed.

  (** Q-learning as run by the loop: V_next is the greedy (maximal) value at the successor. *)
  Theorem q_learning_step_spec s1 a1 : (s' < ns)%nat -> (0 < na)%nat ->
    let vmax := tget t s' (greedy t s') in
    Forall (fun x => x <= vmax) (trow t s') /\
    tget (q_learning_step t s a r s' gamma term lr) s1 a1 =
    if Nat.eqb s s1 && Nat.eqb a a1
    then tget t s a + lr * (r + gamma * ((1 - bool01 term) * vmax) - tget t s a)
    else tget t s1 a1.
  Proof.
    intros Hs' Hna. cbn zeta. split.
    - unfold tget, greedy. apply argmax_is_max. pose proof (wf_row ns na t s' Hwf Hs').
      destruct (trow t s'); [cbn in *; lia|discriminate].
    - unfold q_learning_step. apply update_policy_spec.
  Qed.

  (** Double Q-learning: the updated table changes at (s,a) only; the bootstrap is the OTHER
      table's value of the UPDATED table's greedy action at the SUCCESSOR state. *)
  Theorem dql_update_spec s1 a1 :
    tget (dql_update t t2 s a r s' gamma lr term) s1 a1 =
    if Nat.eqb s s1 && Nat.eqb a a1
    then tget t s a + lr * (r + gamma * ((1 - bool01 term) * tget t2 s' (greedy t s')) - tget t s a)
    else tget t s1 a1.
  Proof.
    unfold dql_update. rewrite (tget_tset ns na) by assumption.
    destruct (Nat.eqb s s1 && Nat.eqb a a1); [|reflexivity].
    unfold td_error. destruct term; cbn; ring.
  Qed.

  (** Dyna-Q direct / planning update: greedy-successor update of (s,a) only. *)
  Theorem dyna_q_update_spec s1 a1 :
    tget (dyna_q_update t s a r s' gamma lr) s1 a1 =
    if Nat.eqb s s1 && Nat.eqb a a1
    then tget t s a + lr * (r + gamma * tget t s' (greedy t s') - tget t s a)
    else tget t s1 a1.
  Proof.
    unfold dyna_q_update. rewrite (tget_tset ns na) by assumption.
    destruct (Nat.eqb s s1 && Nat.eqb a a1); reflexivity.
  Qed.
End Updates.

(* ------------------------------------------------------------------ *)
(** ** Monte-Carlo control: running mean of the observed discounted returns *)
(** Returns in the order the backward loop visits the steps: G = r + gamma * G_next. *)
Fixpoint obs_returns (ret : R) (steps : list (nat * nat * R)) (gamma : R) : list (nat * nat * R) :=
  match steps with
  | [] => []
  | (s, a, r) :: rest => let ret' := r + gamma * ret in (s, a, ret') :: obs_returns ret' rest gamma
  end.
Definition hit (s a : nat) (v : nat * nat * R) : bool := Nat.eqb s (fst (fst v)) && Nat.eqb a (snd (fst v)).
Definition cnt (L : list (nat * nat * R)) (s a : nat) : nat := length (filter (hit s a) L).
Definition sumr (L : list (nat * nat * R)) (s a : nat) : R :=
  fold_right Rplus 0 (map snd (filter (hit s a) L)).

Definition MCInv (ns na : nat) (q n : table (F := R)) (L : list (nat * nat * R)) : Prop :=
  wf ns na q /\ wf ns na n /\
  forall s a, (s < ns)%nat -> (a < na)%nat ->
    tget n s a = INR (cnt L s a) /\ tget q s a * INR (cnt L s a) = sumr L s a.

Lemma cnt_app L1 L2 s a : cnt (L1 ++ L2) s a = (cnt L1 s a + cnt L2 s a)%nat.
Proof. unfold cnt. rewrite filter_app, app_length. reflexivity. Qed.
Lemma sumr_app L1 L2 s a : sumr (L1 ++ L2) s a = sumr L1 s a + sumr L2 s a.
Proof.
  unfold sumr. rewrite filter_app, map_app. induction (map snd (filter (hit s a) L1)); cbn; lra.
Qed.

Lemma mc_back_inv ns na gamma steps : forall q n ret L,
  Forall (fun v => (fst (fst v) < ns)%nat /\ (snd (fst v) < na)%nat) steps ->
  MCInv ns na q n L ->
  MCInv ns na (fst (mc_back q n ret steps gamma)) (snd (mc_back q n ret steps gamma))
        (L ++ obs_returns ret steps gamma).
Proof.
  induction steps as [|[[s a] r] rest IH]; intros q n ret L Hin HI; cbn [mc_back obs_returns].
  - rewrite app_nil_r. exact HI.
  - inversion Hin as [|? ? [Hs Ha] Hrest]; subst. cbn [fst snd] in Hs, Ha.
    set (ret' := r + gamma * ret).
    replace (L ++ (s, a, ret') :: obs_returns ret' rest gamma)
      with ((L ++ [(s, a, ret')]) ++ obs_returns ret' rest gamma) by (rewrite <- app_assoc; reflexivity).
    apply IH; [exact Hrest|].
    destruct HI as (Hq & Hn & Hall).
    split; [apply wf_tset, Hq|]. split; [apply wf_tset, Hn|].
    intros s1 a1 Hs1 Ha1. destruct (Hall s1 a1 Hs1 Ha1) as [Hn1 Hq1].
    rewrite cnt_app, sumr_app.
    rewrite !(tget_tset ns na) by (auto using wf_tset). rewrite ?Nat.eqb_refl. cbn [andb].
    destruct (Nat.eqb s s1 && Nat.eqb a a1) eqn:E.
    + apply andb_prop in E. destruct E as [E1 E2]. apply Nat.eqb_eq in E1, E2. subst s1 a1.
      assert (C1 : cnt [(s, a, ret')] s a = 1%nat)
        by (unfold cnt, hit; cbn [filter fst snd]; rewrite !Nat.eqb_refl; reflexivity).
      assert (S1 : sumr [(s, a, ret')] s a = ret')
        by (unfold sumr, hit; cbn [filter fst snd]; rewrite !Nat.eqb_refl; cbn; lra).
      rewrite C1, S1, plus_INR, Hn1. cbn [INR nunit nadd nmul ndiv nsub R_ops]. split; [reflexivity|].
      assert (Hpos : INR (cnt L s a) + 1 <> 0) by (pose proof (pos_INR (cnt L s a)); lra).
      rewrite <- Hq1. unfold ret'. field. exact Hpos.
    + assert (C0 : cnt [(s, a, ret')] s1 a1 = 0%nat).
      { unfold cnt, hit; cbn [filter fst snd]. rewrite (Nat.eqb_sym s1 s), (Nat.eqb_sym a1 a), E. reflexivity. }
      assert (S0 : sumr [(s, a, ret')] s1 a1 = 0).
      { unfold sumr, hit; cbn [filter fst snd]. rewrite (Nat.eqb_sym s1 s), (Nat.eqb_sym a1 a), E. reflexivity. }
      rewrite C0, S0, Nat.add_0_r, Rplus_0_r. split; assumption.
Qed.

(** After any sequence of episodes, starting from zero visit counts, every visited entry
    equals the arithmetic mean of all discounted returns observed for it (and n counts them). *)
Definition all_returns (episodes : list (list (nat * nat * R))) (gamma : R) : list (nat * nat * R) :=
  flat_map (fun ep => obs_returns 0 (rev ep) gamma) episodes.
Definition mc_run (q n : table (F := R)) (episodes : list (list (nat * nat * R))) (gamma : R) : table * table :=
  fold_left (fun qn ep => mc_update (fst qn) (snd qn) ep gamma) episodes (q, n).

Theorem mc_running_mean ns na gamma episodes q0 :
  wf ns na q0 ->
  Forall (Forall (fun v => (fst (fst v) < ns)%nat /\ (snd (fst v) < na)%nat)) episodes ->
  let '(q, n) := mc_run q0 (zeros2 ns na) episodes gamma in
  let L := all_returns episodes gamma in
  forall s a, (s < ns)%nat -> (a < na)%nat ->
    tget n s a = INR (cnt L s a) /\
    ((0 < cnt L s a)%nat -> tget q s a = sumr L s a / INR (cnt L s a)).
Proof.
  intros Hq0 Hin.
  assert (Hz : wf ns na (zeros2 (F := R) ns na)).
  { unfold wf, zeros2. rewrite repeat_length. split; [reflexivity|].
    apply Forall_forall. intros row Hr. apply repeat_spec in Hr. subst. apply repeat_length. }
  assert (H0 : MCInv ns na q0 (zeros2 ns na) []).
  { split; [exact Hq0|]. split; [exact Hz|]. intros s a Hs Ha. cbn. split; [|lra].
    unfold tget, trow, zeros2. 
    rewrite (nth_indep _ [] (repeat 0 na)) by (rewrite repeat_length; lia).
    rewrite nth_repeat. destruct (Nat.lt_ge_cases a na); [rewrite nth_repeat; reflexivity|lia]. }
  assert (G : forall eps qn L, Forall (Forall (fun v => (fst (fst v) < ns)%nat /\ (snd (fst v) < na)%nat)) eps ->
            MCInv ns na (fst qn) (snd qn) L ->
            MCInv ns na (fst (fold_left (fun qn ep => mc_update (fst qn) (snd qn) ep gamma) eps qn))
                        (snd (fold_left (fun qn ep => mc_update (fst qn) (snd qn) ep gamma) eps qn))
                        (L ++ all_returns eps gamma)).
  { induction eps as [|ep eps IH]; intros qn L He HI; cbn [fold_left all_returns flat_map].
    - rewrite app_nil_r. exact HI.
    - inversion He as [|? ? Hep Heps]; subst. rewrite app_assoc.
      apply IH; [exact Heps|]. unfold mc_update. apply mc_back_inv; [|exact HI].
      apply Forall_rev. exact Hep. }
  specialize (G episodes (q0, zeros2 ns na) [] Hin H0). unfold mc_run.
  destruct (fold_left _ episodes (q0, zeros2 ns na)) as [q n]. cbn [fst snd app] in G.
  destruct G as (_ & _ & Hall). intros s a Hs Ha. destruct (Hall s a Hs Ha) as [Hn Hq].
  split; [exact Hn|]. intro Hpos.
  assert (Hne : INR (cnt (all_returns episodes gamma) s a) <> 0) by (apply not_0_INR; lia).
  rewrite <- Hq. field. exact Hne.
Qed.

(* ------------------------------------------------------------------ *)
(** ** Dyna-Q: the learned model is the empirical model of the observed transitions *)
Definition cwf {X} (ns na : nat) (c : cube X) : Prop :=
  length c = ns /\ Forall (fun plane => length plane = na /\ Forall (fun row => length row = ns) plane) c.

Definition crow {X} (c : cube X) (s a : nat) : list X := nth a (nth s c []) [].

Lemma cwf_plane {X} ns na (c : cube X) s : cwf ns na c -> (s < ns)%nat ->
  length (nth s c []) = na /\ Forall (fun row => length row = ns) (nth s c []).
Proof. intros [Hl Hp] Hs. rewrite Forall_forall in Hp. apply Hp, nth_In. lia. Qed.

Lemma crow_crow_set {X} ns na (c : cube X) s a row s1 a1 : cwf ns na c -> (s < ns)%nat -> (a < na)%nat ->
  crow (crow_set c s a row) s1 a1 = if Nat.eqb s s1 && Nat.eqb a a1 then row else crow c s1 a1.
Proof.
  intros Hc Hs Ha. destruct (cwf_plane ns na c s Hc Hs) as [Hpl _]. destruct Hc as [Hl _].
  unfold crow, crow_set.
  destruct (Nat.eqb_spec s s1) as [<-|Hne]; cbn [andb].
  - rewrite nth_upd_same by lia. rewrite nth_upd. destruct (Nat.eqb_spec a a1) as [<-|Hna]; [|reflexivity].
    rewrite Hpl. destruct (Nat.ltb_spec a na); [reflexivity|lia].
  - rewrite nth_upd_other by exact Hne. reflexivity.
Qed.

Lemma crow_cset {X} ns na (c : cube X) s a s' v s1 a1 : cwf ns na c -> (s < ns)%nat -> (a < na)%nat ->
  crow (cset c s a s' v) s1 a1 = if Nat.eqb s s1 && Nat.eqb a a1 then upd (crow c s a) s' v else crow c s1 a1.
Proof. intros. unfold cset. fold (crow c s a). fold (crow_set c s a (upd (crow c s a) s' v)).
  eapply crow_crow_set; eassumption. Qed.

Lemma cwf_crow_set {X} ns na (c : cube X) s a row : cwf ns na c -> length row = ns -> cwf ns na (crow_set c s a row).
Proof.
  intros [Hl Hp] Hr. unfold cwf, crow_set. rewrite upd_length. split; [exact Hl|].
  rewrite Forall_forall in *. intros plane Hin.
  apply In_nth with (d := []) in Hin. destruct Hin as (i & Hi & <-). rewrite upd_length in Hi.
  rewrite nth_upd. destruct (Nat.eqb s i) eqn:E; [|apply Hp, nth_In; lia].
  destruct (Nat.ltb s (length c)) eqn:E2; [|apply Hp, nth_In; lia].
  apply Nat.eqb_eq in E. subst i. destruct (Hp (nth s c []) (nth_In _ _ Hi)) as [Hpl Hrows].
  rewrite upd_length. split; [exact Hpl|].
  rewrite Forall_forall in *. intros r0 Hin0. apply In_nth with (d := []) in Hin0.
  destruct Hin0 as (k & Hk & <-). rewrite upd_length in Hk. rewrite nth_upd.
  destruct (Nat.eqb a k); [destruct (Nat.ltb a _); [exact Hr|apply Hrows, nth_In; lia]|apply Hrows, nth_In; lia].
Qed.

Lemma cwf_crow {X} ns na (c : cube X) s a : cwf ns na c -> (s < ns)%nat -> (a < na)%nat -> length (crow c s a) = ns.
Proof.
  intros Hc Hs Ha. destruct (cwf_plane ns na c s Hc Hs) as [Hpl Hrows]. unfold crow.
  rewrite Forall_forall in Hrows. apply Hrows, nth_In. lia.
Qed.

Definition emp_row (counts : list nat) : list R :=
  map (fun c => INR c / INR (fold_left Nat.add counts 0%nat)) counts.

(** Row (s,a) of the transition model is either never visited or exactly the empirical
    successor distribution of the counters. *)
Definition TInv (ns na : nat) (d : dyna (F := R)) : Prop :=
  cwf ns na (d_count d) /\ cwf ns na (d_trans d) /\
  forall s a, (s < ns)%nat -> (a < na)%nat ->
    fold_left Nat.add (crow (d_count d) s a) 0%nat = 0%nat \/
    crow (d_trans d) s a = emp_row (crow (d_count d) s a).

Definition dyna_obs (d : dyna (F := R)) (tr : nat * nat * R * nat) : dyna :=
  let '(s, a, r, s') := tr in model_update (counter_update d s a r s') s a s'.

Lemma nofnat_R n : nofnat (F := R) n = INR n.
Proof. unfold nofnat. cbn [nofQ R_ops]. unfold Q2R. cbn. rewrite INR_IZR_INZ. field. Qed.

Lemma tinv_step ns na d s a r s' : (s < ns)%nat -> (a < na)%nat -> (s' < ns)%nat ->
  TInv ns na d -> TInv ns na (dyna_obs d (s, a, r, s')).
Proof.
  intros Hs Ha Hs' (Hc & Ht & Hall). unfold dyna_obs, model_update, counter_update. cbn [d_count d_rewards d_trans d_rew].
  assert (Hc' : cwf ns na (cset (d_count d) s a s' (S (cget (d_count d) 0%nat s a s')))).
  { unfold cset. apply (cwf_crow_set ns na (d_count d) s a); [exact Hc|]. rewrite upd_length.
    apply (cwf_crow ns na); assumption. }
  split; [exact Hc'|]. split.
  - apply cwf_crow_set; [exact Ht|]. rewrite map_length. fold (crow (cset (d_count d) s a s' (S (cget (d_count d) 0%nat s a s'))) s a).
    apply (cwf_crow ns na); assumption.
  - intros s1 a1 Hs1 Ha1. cbn [d_count d_trans].
    fold (crow (cset (d_count d) s a s' (S (cget (d_count d) 0%nat s a s'))) s a).
    rewrite (crow_crow_set ns na) by assumption.
    destruct (Nat.eqb s s1 && Nat.eqb a a1) eqn:E.
    + apply andb_prop in E. destruct E as [E1 E2]. apply Nat.eqb_eq in E1, E2. subst s1 a1.
      right. unfold emp_row. apply map_ext. intro c. rewrite !nofnat_R. reflexivity.
    + rewrite (crow_cset ns na) by assumption. rewrite E. apply Hall; assumption.
Qed.

(** After any history of observed transitions, every visited (s,a) row of the model equals
    the empirical successor frequencies of the counters. *)
Theorem dyna_model_empirical ns na hist :
  Forall (fun tr => let '(s, a, _, s') := tr in (s < ns)%nat /\ (a < na)%nat /\ (s' < ns)%nat) hist ->
  TInv ns na (fold_left dyna_obs hist (dyna_init ns na)).
Proof.
  intro Hin.
  assert (H0 : TInv ns na (dyna_init (F := R) ns na)).
  { assert (Hcw : forall X (x : X), cwf ns na (repeat (repeat (repeat x ns) na) ns)).
    { intros X x. unfold cwf. rewrite repeat_length. split; [reflexivity|].
      apply Forall_forall. intros p Hp. apply repeat_spec in Hp. subst. rewrite repeat_length. split; [reflexivity|].
      apply Forall_forall. intros r0 Hr. apply repeat_spec in Hr. subst. apply repeat_length. }
    unfold dyna_init, TInv; cbn [d_count d_trans]. split; [apply Hcw|]. split; [apply Hcw|].
    intros s a Hs Ha. left. unfold crow.
    rewrite (nth_indep _ [] (repeat (repeat 0%nat ns) na)) by (rewrite repeat_length; lia). rewrite nth_repeat.
    rewrite (nth_indep _ [] (repeat 0%nat ns)) by (rewrite repeat_length; lia). rewrite nth_repeat.
    clear. induction ns; cbn; auto. }
  revert H0. generalize (dyna_init (F := R) ns na) as d.
  induction Hin as [|[[[s a] r] s'] hist (Hs & Ha & Hs') _ IH]; intros d HI; cbn [fold_left]; [exact HI|].
  apply IH. apply tinv_step; assumption.
Qed.

(** The counters themselves are exact: one observation increments exactly its own entry. *)
Theorem counter_update_exact ns na (d : dyna (F := R)) s a r s' s1 a1 s1' :
  cwf ns na (d_count d) -> (s < ns)%nat -> (a < na)%nat -> (s' < ns)%nat ->
  nth s1' (crow (d_count (counter_update d s a r s')) s1 a1) 0%nat =
  ((if Nat.eqb s s1 && Nat.eqb a a1 && Nat.eqb s' s1' then 1 else 0) + nth s1' (crow (d_count d) s1 a1) 0)%nat.
Proof.
  intros Hc Hs Ha Hs'. unfold counter_update; cbn [d_count]. rewrite (crow_cset ns na) by assumption.
  destruct (Nat.eqb s s1 && Nat.eqb a a1) eqn:E; cbn [andb]; [|reflexivity].
  apply andb_prop in E. destruct E as [E1 E2]. apply Nat.eqb_eq in E1, E2. subst s1 a1.
  rewrite nth_upd. destruct (Nat.eqb_spec s' s1') as [<-|Hne]; [|reflexivity].
  rewrite (cwf_crow ns na) by assumption. destruct (Nat.ltb_spec s' ns); [|lia].
  unfold cget, crow. reflexivity.
Qed.
